# sourced by every script: offline Go environment, /repo has a go.work we must ignore
export GOWORK=off GOFLAGS=-mod=mod GOPROXY=off GOSUMDB=off GOTOOLCHAIN=local CARGO_NET_OFFLINE=true PIP_NO_INDEX=1
