package h20

import (
	"verifharness/verif"
)

// C14_PoolIndependence: ParseVector does not depend on what an earlier call
// left in the pooled scratch slice: two calls on the same string, each with
// arbitrary (independent) pool contents, give the same result.
func C14_PoolIndependence() {
	s := verif.NondetString("s", verif.Param("PARSE_N", 10))
	prime := func(p string) { ParseVector(p) }
	verif.PrimePool(1, prime)
	c1, e1 := ParseVector(s)
	verif.PrimePool(2, prime)
	c2, e2 := ParseVector(s)
	verif.Assert(e1 == e2, "same error whatever the pool held")
	verif.Assert((c1 == nil) == (c2 == nil), "same nil-ness whatever the pool held")
	if c1 != nil && c2 != nil {
		verif.Assert(*c1 == *c2, "same object whatever the pool held")
	}
}

// C14_PoolIndependenceShaped: the same on the structured inputs.
func C14_PoolIndependenceShaped() {
	s := shapedInput()
	prime := func(p string) { ParseVector(p) }
	verif.PrimePool(1, prime)
	c1, e1 := ParseVector(s)
	verif.PrimePool(2, prime)
	c2, e2 := ParseVector(s)
	verif.Assert(e1 == e2, "same error whatever the pool held")
	verif.Assert((c1 == nil) == (c2 == nil), "same nil-ness whatever the pool held")
	if c1 != nil && c2 != nil {
		verif.Assert(*c1 == *c2, "same object whatever the pool held")
	}
}

// C14_PoolIndependenceStruct: the same on the element-structured inputs (SHAPE).
func C14_PoolIndependenceStruct() {
	s := structInput()
	prime := func(p string) { ParseVector(p) }
	verif.PrimePool(1, prime)
	c1, e1 := ParseVector(s)
	verif.PrimePool(2, prime)
	c2, e2 := ParseVector(s)
	verif.Assert(e1 == e2, "same error whatever the pool held")
	verif.Assert((c1 == nil) == (c2 == nil), "same nil-ness whatever the pool held")
	if c1 != nil && c2 != nil {
		verif.Assert(*c1 == *c2, "same object whatever the pool held")
	}
}
