package h20

// refResult is what the guide says about a string.
type refResult struct {
	ok  bool
	val [14]int // value index per metric (0 = ND for absent optional metrics)
}

// refParse: no header; "abv:val" elements separated by '/': the six base
// metrics in order, then nothing, the whole temporal group, the whole
// environmental group, or both, in that order.
func refParse(s string) refResult {
	var r refResult
	pos := 0 // index of the metric that must come next
	start := 0
	bad := false
	n := 0
	for i := 0; i <= len(s); i++ {
		if i != len(s) && s[i] != '/' {
			continue
		}
		k, vi := matchElement(s[start:i])
		start = i + 1
		n++
		// after the base group (6) the temporal group (6..8) may be skipped as a whole
		if k == pos || (pos == 6 && k == 9) {
			r.val[k] = vi
			pos = k + 1
		} else {
			bad = true
		}
	}
	// groups must be complete: stop after A (6), RC (9) or AR (14)
	if bad || !(pos == 6 || pos == 9 || pos == 14) {
		return refResult{}
	}
	r.ok = true
	return r
}
