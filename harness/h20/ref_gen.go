package h20

// Reference tokeniser, written from the grammar in the property text. It
// shares no code with the implementation: an element is recognised by
// comparing it with the finite list of legal "abbreviation:value" spellings.

// cands[i][j] = metrics[i].abv + ":" + metrics[i].vals[j]
var cands [][]string

// prefixes[i] = metrics[i].abv + ":"
var prefixes []string

func init() {
	for _, m := range metrics {
		var cs []string
		for _, v := range m.vals {
			cs = append(cs, m.abv+":"+v)
		}
		cands = append(cands, cs)
		prefixes = append(prefixes, m.abv+":")
	}
}

// matchElement returns the metric index and value index of a legal element
// "abv:val", or (-1, -1).
func matchElement(el string) (int, int) {
	k, vi := -1, -1
	for mi, cs := range cands {
		for j, c := range cs {
			if el == c {
				k, vi = mi, j
			}
		}
	}
	return k, vi
}
