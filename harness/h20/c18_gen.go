package h20

import (
	"verifharness/verif"
)

// matchPrefix returns the index of the metric whose abbreviation the element
// carries ("abv:..." or the bare "abv"), or -1.
func matchPrefix(el string) int {
	k := -1
	for mi, p := range prefixes {
		if (len(el) >= len(p) && el[:len(p)] == p) || el == metrics[mi].abv {
			k = mi
		}
	}
	return k
}

// C18_GetSet: Get/Set on an unknown abbreviation return *ErrInvalidMetric
// carrying that abbreviation, Set with an illegal value returns
// ErrInvalidMetricValue; strings of any length, every reachable object.
func C18_GetSet() {
	var c CVSS
	verif.Havoc("c", &c)
	verif.Assume(inv(c))
	abv := verif.NondetString("abv", -8)
	val := verif.NondetString("val", -8)
	_, gerr := c.Get(abv)
	d := c
	serr := d.Set(abv, val)
	if !isMetric(abv) {
		ge, gok := gerr.(*ErrInvalidMetric)
		verif.Assert(gok && ge.Abv == abv, "Get on an unknown abbreviation returns *ErrInvalidMetric naming it")
		se, sok := serr.(*ErrInvalidMetric)
		verif.Assert(sok && se.Abv == abv, "Set on an unknown abbreviation returns *ErrInvalidMetric naming it")
	} else if !legal(abv, val) {
		verif.Assert(serr == ErrInvalidMetricValue, "Set with an illegal value returns ErrInvalidMetricValue")
	}
}

// C18_Parse / C18_ParseShaped: the documented error value for a wrong header
// and for vectors with a single defect (classifyErr, per version).
func C18_Parse() {
	checkParseError(verif.NondetString("s", parseBound()))
}

func C18_ParseShaped() {
	checkParseError(shapedInput())
}

// C18_ParseStruct: the same on the element-structured inputs (SHAPE).
func C18_ParseStruct() {
	checkParseError(structInput())
}

// droppedInput is the canonical base part (arbitrary values) with ONE of the
// mandatory elements left out (which one is arbitrary) and nothing after it:
// it reaches the "missing base metric" (v3) and "vector cut short" (v2, v4)
// defects.
func droppedInput() string {
	j := verif.NondetInt("drop", 0, nBase-1)
	s := Header
	first := true
	for i := 0; i < nBase; i++ {
		if i == j {
			continue
		}
		m := metrics[i]
		v := verif.NondetBytes("v_"+m.abv, 1)
		verif.Assume(v[0] != '/')
		if !first || Header == "CVSS:4.0" {
			s += "/"
		}
		first = false
		s += m.abv + ":" + v
	}
	return s
}

func C18_ParseDropped() {
	checkParseError(droppedInput())
}

// C18_ParseMutated: the documented error on every single-byte edit of the
// canonical base part (see C01_AcceptMutated).
func C18_ParseMutated() {
	base := baseInput()
	b := verif.NondetBytes("mb", 1)
	kind := verif.Param("MUT", 0)
	lo := verif.Param("POS0", 0)
	for p := lo; p < lo+mutChunkN(); p++ {
		s, ok := mutated(base, b, kind, p)
		if !ok {
			continue
		}
		checkParseError(s)
	}
}
