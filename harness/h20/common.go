// Package h20 holds the harnesses for the CVSS v2.0 package. Everything here
// uses the exported API only; the reference data below is written from the
// property text (CVSS v2.0 guide), not from the implementation.
package h20

import (
	gocvss20 "github.com/pandatix/go-cvss/20"
)

type metric struct {
	abv  string
	vals []string
}

// metrics in specification order; first value of an optional metric is "ND"
var metrics = []metric{
	{"AV", []string{"L", "A", "N"}},
	{"AC", []string{"L", "M", "H"}},
	{"Au", []string{"M", "S", "N"}},
	{"C", []string{"N", "P", "C"}},
	{"I", []string{"N", "P", "C"}},
	{"A", []string{"N", "P", "C"}},
	{"E", []string{"ND", "U", "POC", "F", "H"}},
	{"RL", []string{"ND", "OF", "TF", "W", "U"}},
	{"RC", []string{"ND", "UC", "UR", "C"}},
	{"CDP", []string{"ND", "N", "L", "LM", "MH", "H"}},
	{"TD", []string{"ND", "N", "L", "M", "H"}},
	{"CR", []string{"ND", "L", "M", "H"}},
	{"IR", []string{"ND", "L", "M", "H"}},
	{"AR", []string{"ND", "L", "M", "H"}},
}

func in(v string, vals []string) bool {
	for _, x := range vals {
		if v == x {
			return true
		}
	}
	return false
}

// inv is the reachability invariant of DESIGN section 5: every Get returns a
// value of the metric's list and rebuilding the object through Set from its
// Get values gives the same object.
func inv(c gocvss20.CVSS20) bool {
	var r gocvss20.CVSS20
	ok := true
	for _, m := range metrics {
		v, err := c.Get(m.abv)
		if err != nil || !in(v, m.vals) {
			ok = false
		}
		if r.Set(m.abv, v) != nil {
			ok = false
		}
	}
	return ok && r == c
}
