// Package h20 holds the harnesses for the CVSS v2.0 package. Exported API
// only; the reference data is written from the property text / CVSS v2.0
// guide, not from the implementation.
package h20

import (
	gocvss20 "github.com/pandatix/go-cvss/20"
)

type CVSS = gocvss20.CVSS20

var ParseVector = gocvss20.ParseVector

const Header = ""


type ErrInvalidMetric = gocvss20.ErrInvalidMetric

var ErrInvalidMetricValue = gocvss20.ErrInvalidMetricValue
var ErrTooShortVector = gocvss20.ErrTooShortVector
var ErrInvalidMetricOrder = gocvss20.ErrInvalidMetricOrder

type metric struct {
	abv  string
	vals []string
}

const nBase = 6

// metrics in specification order; the first value of an optional metric is "ND"
var metrics = []metric{
	{"AV", []string{"L", "A", "N"}},
	{"AC", []string{"L", "M", "H"}},
	{"Au", []string{"M", "S", "N"}},
	{"C", []string{"N", "P", "C"}},
	{"I", []string{"N", "P", "C"}},
	{"A", []string{"N", "P", "C"}},
	{"E", []string{"ND", "U", "POC", "F", "H"}},
	{"RL", []string{"ND", "OF", "TF", "W", "U"}},
	{"RC", []string{"ND", "UC", "UR", "C"}},
	{"CDP", []string{"ND", "N", "L", "LM", "MH", "H"}},
	{"TD", []string{"ND", "N", "L", "M", "H"}},
	{"CR", []string{"ND", "L", "M", "H"}},
	{"IR", []string{"ND", "L", "M", "H"}},
	{"AR", []string{"ND", "L", "M", "H"}},
}
