package h20

import (
	"verifharness/verif"
)

const (
	kNone = iota
	kOrder
	kBadValue
	kTooShort
)

func placeOK(k, pos int) bool {
	return k == pos || (pos == 6 && k == 9)
}

// checkParseError: exactly one defect -> misplaced / repeated / unknown
// metric: ErrInvalidMetricOrder, illegal value: ErrInvalidMetricValue, vector
// cut short inside a started group: ErrTooShortVector; two or more defects
// are not constrained.
func checkParseError(s string) {
	_, err := ParseVector(s)
	defects, kind := 0, kNone
	pos := 0
	start := 0
	for i := 0; i <= len(s); i++ {
		if i != len(s) && s[i] != '/' {
			continue
		}
		el := s[start:i]
		start = i + 1
		k, _ := matchElement(el)
		if k >= 0 {
			if placeOK(k, pos) {
				pos = k + 1
			} else {
				defects++
				kind = kOrder
			}
			continue
		}
		pk := matchPrefix(el)
		if pk >= 0 && placeOK(pk, pos) {
			defects++
			kind = kBadValue
			pos = pk + 1
			continue
		}
		if pk >= 0 {
			defects += 2
			continue
		}
		defects++
		kind = kOrder
	}
	if !(pos == 6 || pos == 9 || pos == 14) {
		defects++
		kind = kTooShort
	}
	if defects != 1 {
		return
	}
	switch kind {
	case kOrder:
		verif.Assert(err == ErrInvalidMetricOrder, "a single misplaced, repeated or unknown metric yields ErrInvalidMetricOrder")
	case kBadValue:
		verif.Assert(err == ErrInvalidMetricValue, "a single illegal value yields ErrInvalidMetricValue")
	case kTooShort:
		verif.Assert(err == ErrTooShortVector, "a vector cut short inside a group yields ErrTooShortVector")
	}
}
