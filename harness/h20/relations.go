package h20

import (
	"math"

	"verifharness/verif"
)

// severity orders of the guide, least severe first (ND is an alias of its default)
var sevOrder = []metric{
	{"AV", []string{"L", "A", "N"}},
	{"AC", []string{"H", "M", "L"}},
	{"Au", []string{"M", "S", "N"}},
	{"C", []string{"N", "P", "C"}},
	{"I", []string{"N", "P", "C"}},
	{"A", []string{"N", "P", "C"}},
	{"E", []string{"U", "POC", "F", "H"}},
	{"RL", []string{"OF", "TF", "W", "U"}},
	{"RC", []string{"UC", "UR", "C"}},
}

var ndDefault = []metric{
	{"E", []string{"H"}}, {"RL", []string{"U"}}, {"RC", []string{"C"}},
}

func rank(c CVSS, abv string) int {
	v := get(c, abv)
	if v == "ND" {
		for _, d := range ndDefault {
			if d.abv == abv {
				v = d.vals[0]
			}
		}
	}
	for _, m := range sevOrder {
		if m.abv == abv {
			return idx(v, m.vals)
		}
	}
	return 0
}

func oneDecimal(s float64, lo, hi float64) bool {
	k := math.Round(s * 10)
	return s == s && k >= lo && k <= hi && s == k/10
}

// C11_*: every score is a finite one-decimal number; base and temporal within
// [0,10]; the environmental equation, evaluated literally, reaches -0.2 for a
// few low-impact vectors (pinned by C05), never more than 10.
func C11_Base() {
	c := havocReachable()
	verif.Assert(oneDecimal(c.BaseScore(), 0, 100), "BaseScore is a finite one-decimal number in [0,10]")
}

func C11_Temporal() {
	c := havocReachable()
	verif.Assert(oneDecimal(c.TemporalScore(), 0, 100), "TemporalScore is a finite one-decimal number in [0,10]")
}

func C11_Environmental() {
	c := havocReachable()
	verif.Assert(oneDecimal(c.EnvironmentalScore(), -2, 100), "EnvironmentalScore is a finite one-decimal number in [-0.2,10]")
}

// C12_Base: a more severe base metric never lowers BaseScore.
func C12_Base() {
	c := havocReachable()
	verif.Monotone("base", c.BaseScore(), rank(c, "AV"), rank(c, "AC"), rank(c, "Au"), rank(c, "C"), rank(c, "I"), rank(c, "A"))
}

// C12_Temporal: ... nor TemporalScore, in the base and temporal metrics.
func C12_Temporal() {
	c := havocReachable()
	verif.Monotone("temporal", c.TemporalScore(), rank(c, "AV"), rank(c, "AC"), rank(c, "Au"), rank(c, "C"), rank(c, "I"), rank(c, "A"),
		rank(c, "E"), rank(c, "RL"), rank(c, "RC"))
}
