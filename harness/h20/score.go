package h20

import (
	"verifharness/verif"
)

// idx is the position of v in vals (the specification's value list).
func idx(v string, vals []string) int {
	for i, x := range vals {
		if v == x {
			return i
		}
	}
	return 0
}

func get(c CVSS, abv string) string {
	v, _ := c.Get(abv)
	return v
}

// keyOf packs the value indices of the listed metrics (mixed radix, in order).
func keyOf(c CVSS, abvs []string) int {
	k := 0
	for _, abv := range abvs {
		for _, m := range metrics {
			if m.abv == abv {
				k = k*len(m.vals) + idx(get(c, abv), m.vals)
			}
		}
	}
	return k
}

var baseAbvs = []string{"AV", "AC", "Au", "C", "I", "A"}
var tempAbvs = []string{"E", "RL", "RC"}
var reqAbvs = []string{"CR", "IR", "AR"}
var envAbvs = []string{"CDP", "TD"}

func near(got float64, e12 int) bool {
	d := got - float64(e12)/1e12
	return d < 1e-9 && d > -1e-9
}

func is(got float64, tenths int) bool {
	return got == float64(tenths)/10
}

func havocReachable() CVSS {
	var c CVSS
	verif.Havoc("c", &c)
	verif.Assume(inv(c))
	return c
}

// C05_Base: BaseScore equals the guide's equation, rounded to one decimal
// (either neighbour where the exact value is a tie).
func C05_Base() {
	c := havocReachable()
	k := keyOf(c, baseAbvs)
	got := c.BaseScore()
	verif.Assert(is(got, verif.Table("v2_base_lo", k)) || is(got, verif.Table("v2_base_hi", k)), "BaseScore equals the guide equations")
}

// C05_SubScores: Impact and Exploitability are the unrounded sub-scores.
func C05_SubScores() {
	c := havocReachable()
	k := keyOf(c, baseAbvs)
	verif.Assert(near(c.Impact(), verif.Table("v2_impact_e12", k)), "Impact equals the guide sub-equation")
	verif.Assert(near(c.Exploitability(), verif.Table("v2_expl_e12", k)), "Exploitability equals the guide sub-equation")
}

// C05_Temporal: TemporalScore = round_to_1_decimal(BaseScore*E*RL*RC).
func C05_Temporal() {
	c := havocReachable()
	k := keyOf(c, baseAbvs)
	kt := keyOf(c, tempAbvs)
	got := c.TemporalScore()
	ok := false
	for _, bn := range []string{"v2_base_lo", "v2_base_hi"} {
		b := verif.Table(bn, k)
		for _, tn := range []string{"v2_temporalize_lo", "v2_temporalize_hi"} {
			if is(got, verif.Table(tn, (b+100)*100+kt)) {
				ok = true
			}
		}
	}
	verif.Assert(ok, "TemporalScore equals the guide equations")
}

// C05_Environmental: the guide's environmental equation over AdjustedImpact,
// AdjustedTemporal, CDP and TD.
func C05_Environmental() {
	c := havocReachable()
	k := keyOf(c, baseAbvs)*64 + keyOf(c, reqAbvs)
	kt := keyOf(c, tempAbvs)
	ke := keyOf(c, envAbvs)
	got := c.EnvironmentalScore()
	ok := false
	for _, bn := range []string{"v2_adjbase_lo", "v2_adjbase_hi"} {
		b := verif.Table(bn, k)
		for _, tn := range []string{"v2_temporalize_lo", "v2_temporalize_hi"} {
			at := verif.Table(tn, (b+100)*100+kt)
			for _, en := range []string{"v2_envfinal_lo", "v2_envfinal_hi"} {
				if is(got, verif.Table(en, (at+100)*100+ke)) {
					ok = true
				}
			}
		}
	}
	verif.Assert(ok, "EnvironmentalScore equals the guide equations")
}
