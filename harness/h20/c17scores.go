package h20

import (
	"verifharness/verif"
)

// C17_Scores: the scoring methods do not allocate.
func C17_Scores() {
	var c CVSS
	verif.Havoc("c", &c)
	verif.Assume(inv(c))
	n := verif.Allocs(func() { sinkF = c.BaseScore() + c.TemporalScore() + c.EnvironmentalScore() + c.Impact() + c.Exploitability() })
	verif.Assert(n == 0, "scoring methods do not allocate")
}
