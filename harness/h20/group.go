package h20

// groupWritten: v2.0 writes the temporal group (metrics 6..8) in full iff one
// of its metrics is defined, and likewise the environmental group (9..13).
func groupWritten(c CVSS, i int, v, notDef string) bool {
	lo, hi := 6, 9
	if i >= 9 {
		lo, hi = 9, 14
	}
	any := false
	for j := lo; j < hi; j++ {
		w, _ := c.Get(metrics[j].abv)
		if w != notDef {
			any = true
		}
	}
	return any
}
