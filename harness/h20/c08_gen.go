package h20

import (
	"verifharness/verif"
)

// refSerialise is the canonical spelling of an object: header, metrics in
// specification order, not-defined optional metrics left out (v2.0: a
// temporal / environmental group is left out only when all its metrics are
// ND, otherwise written in full).
func refSerialise(c CVSS) string {
	b := verif.ByteBuf()
	b = append(b, Header...)
	notDef := metrics[nBase].vals[0]
	for i, m := range metrics {
		v, _ := c.Get(m.abv)
		if i >= nBase && !groupWritten(c, i, v, notDef) {
			continue
		}
		if i > 0 || Header == "CVSS:4.0" {
			b = append(b, "/"+m.abv+":"...)
		} else {
			b = append(b, m.abv+":"...)
		}
		b = append(b, v...)
	}
	return string(b)
}

// C08_Canonical: Vector() is the canonical spelling, on every reachable object.
func C08_Canonical() {
	var c CVSS
	verif.Havoc("c", &c)
	verif.Assume(inv(c))
	verif.Assert(c.Vector() == refSerialise(c), "Vector() is the canonical spelling of the object")
}
