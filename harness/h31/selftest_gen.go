package h31

import (
	"verifharness/verif"
)

// Selftest is the translator-validation harness (setup): it observes what the
// real code returns for an input string; the setup step compares the native
// observations with the symbolic encoding evaluated on the same input.
func Selftest() {
	s := verif.NondetString("s", verif.Param("SELF_N", 140))
	c, err := ParseVector(s)
	verif.Observe("accepted", err == nil)
	if err == nil {
		for i, m := range metrics {
			v, _ := c.Get(m.abv)
			verif.Observe("idx_"+m.abv, idx(v, metrics[i].vals))
		}
		selftestScores(*c)
	}
}
