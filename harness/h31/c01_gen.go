package h31

import (
	"verifharness/verif"
)

// parseBound is the length bound of the parser harnesses (VERIF_PARSE_N).
func parseBound() int { return verif.Param("PARSE_N", 40) }

// C01_Accept: ParseVector accepts exactly the strings the grammar accepts,
// returns (non-nil, nil) or (nil, non-nil), and never panics.
func C01_Accept() {
	s := verif.NondetString("s", parseBound())
	c, err := ParseVector(s)
	ref := refParse(s)
	verif.Assert((err == nil) == ref.ok, "accepted exactly when the grammar accepts")
	verif.Assert((c != nil) == (err == nil), "non-nil object exactly when nil error")
}

// C01_AcceptShaped: the same on the structured inputs (canonical base part
// with arbitrary values, arbitrary tail).
func C01_AcceptShaped() {
	s := shapedInput()
	c, err := ParseVector(s)
	ref := refParse(s)
	verif.Assert((err == nil) == ref.ok, "accepted exactly when the grammar accepts")
	verif.Assert((c != nil) == (err == nil), "non-nil object exactly when nil error")
}

// C01_AcceptStruct: the same on the element-structured inputs (SHAPE).
func C01_AcceptStruct() {
	s := structInput()
	c, err := ParseVector(s)
	ref := refParse(s)
	verif.Assert((err == nil) == ref.ok, "accepted exactly when the grammar accepts")
	verif.Assert((c != nil) == (err == nil), "non-nil object exactly when nil error")
}

// C01_AcceptDropped: the same on the base part with one mandatory element left out.
func C01_AcceptDropped() {
	s := droppedInput()
	c, err := ParseVector(s)
	ref := refParse(s)
	verif.Assert((err == nil) == ref.ok, "accepted exactly when the grammar accepts")
	verif.Assert((c != nil) == (err == nil), "non-nil object exactly when nil error")
}

// C01_AcceptMutated: the same on every single-byte edit (replace by an
// arbitrary byte / insert an arbitrary byte / delete) of the canonical base
// part with arbitrary values, at the positions POS0 .. POS0+mutChunk-1.
func C01_AcceptMutated() {
	base := baseInput()
	b := verif.NondetBytes("mb", 1)
	kind := verif.Param("MUT", 0)
	lo := verif.Param("POS0", 0)
	for p := lo; p < lo+mutChunkN(); p++ {
		s, ok := mutated(base, b, kind, p)
		if !ok {
			continue
		}
		c, err := ParseVector(s)
		ref := refParse(s)
		verif.Assert((err == nil) == ref.ok, "accepted exactly when the grammar accepts")
		verif.Assert((c != nil) == (err == nil), "non-nil object exactly when nil error")
	}
}
