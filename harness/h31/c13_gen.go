package h31

import (
	"verifharness/verif"
)

// C13_VectorHeader: the string Vector() produces for any reachable object
// starts with this version's own header followed by the first base metric
// (v2.0 has no header: it starts with "AV:").
func C13_VectorHeader() {
	var c CVSS
	verif.Havoc("c", &c)
	verif.Assume(inv(c))
	v := c.Vector()
	// Header is "" (v2.0), "CVSS:3.x/" or "CVSS:4.0" (see common.go)
	want := Header + "AV:"
	if Header == "CVSS:4.0" {
		want = "CVSS:4.0/AV:"
	}
	verif.Assert(v[:len(want)] == want, "Vector() starts with this version's header and first metric")
}
