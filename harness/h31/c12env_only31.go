package h31

import (
	"verifharness/verif"
)

// C12_Environmental (v3.1 only; the v3.0 environmental equation is not
// monotone and the property excludes it): a more severe effective metric
// never lowers EnvironmentalScore.
func C12_Environmental() {
	c := havocReachable()
	verif.Monotone("env", c.EnvironmentalScore(), effRank(c, 0), effRank(c, 1), effRank(c, 2), effRank(c, 3), effRank(c, 4), effRank(c, 5), effRank(c, 6), effRank(c, 7),
		rank(c, "CR"), rank(c, "IR"), rank(c, "AR"), rank(c, "E"), rank(c, "RL"), rank(c, "RC"))
}
