package h31

import (
	"strings"

	"verifharness/verif"
)

const (
	kNone = iota
	kUnknown
	kDuplicate
	kBadValue
	kMissing
)

// checkParseError: wrong or missing header -> ErrInvalidCVSSHeader; exactly
// one defect -> the documented error for it; two or more defects are not
// constrained (the property speaks about single defects).
func checkParseError(s string) {
	_, err := ParseVector(s)
	if len(s) < len(Header) || s[:len(Header)] != Header {
		verif.Assert(err == ErrInvalidCVSSHeader, "wrong or missing header yields ErrInvalidCVSSHeader")
		return
	}
	rest := s[len(Header):]
	var seen [22]bool
	defects, kind, idx := 0, kNone, 0
	unknown := ""
	start := 0
	for i := 0; i <= len(rest); i++ {
		if i != len(rest) && rest[i] != '/' {
			continue
		}
		el := rest[start:i]
		start = i + 1
		k, _ := matchElement(el)
		if k >= 0 {
			if seen[k] {
				defects++
				kind, idx = kDuplicate, k
			}
			seen[k] = true
			continue
		}
		pk := matchPrefix(el)
		if pk >= 0 {
			if seen[pk] {
				defects += 2
			} else {
				defects++
				kind = kBadValue
			}
			seen[pk] = true
			continue
		}
		defects++
		kind = kUnknown
		unknown, _, _ = strings.Cut(el, ":")
	}
	for k := nBase - 1; k >= 0; k-- {
		if !seen[k] {
			defects++
			kind, idx = kMissing, k
		}
	}
	if defects != 1 {
		return
	}
	switch kind {
	case kUnknown:
		e, ok := err.(*ErrInvalidMetric)
		verif.Assert(ok && e.Abv == unknown, "a single unknown abbreviation yields *ErrInvalidMetric naming it")
	case kDuplicate:
		e, ok := err.(*ErrDefinedN)
		verif.Assert(ok && e.Abv == metrics[idx].abv, "a single repeated metric yields *ErrDefinedN naming it")
	case kBadValue:
		verif.Assert(err == ErrInvalidMetricValue, "a single illegal value yields ErrInvalidMetricValue")
	case kMissing:
		e, ok := err.(*ErrMissing)
		verif.Assert(ok && e.Abv == metrics[idx].abv, "a single missing base metric yields *ErrMissing naming it")
	}
}
