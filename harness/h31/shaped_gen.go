package h31

import (
	"verifharness/verif"
)

// tailBound is the length bound of the free tail of the structured inputs.
func tailBound() int { return verif.Param("TAIL_N", 16) }

// shapedInput is the canonical spelling of the base metrics (header, the
// mandatory metrics in specification order) in which every VALUE is an
// arbitrary byte other than '/', followed by an arbitrary byte string of
// length <= tailBound(). It reaches the accepted vectors (which are longer
// than the all-bytes-arbitrary bound) while keeping every value and the whole
// optional part arbitrary.
func shapedInput() string {
	s := Header
	for i := 0; i < nBase; i++ {
		m := metrics[i]
		v := verif.NondetBytes("v_"+m.abv, 1)
		verif.Assume(v[0] != '/')
		if i > 0 || Header == "CVSS:4.0" {
			s += "/"
		}
		s += m.abv + ":" + v
	}
	return s + verif.NondetString("tail", tailBound())
}

var elemNames = []string{"e0", "e1", "e2", "e3", "e4", "e5", "e6", "e7", "e8", "e9", "e10", "e11"}

// structInput is the canonical base part (arbitrary value bytes) followed by
// one '/'-separated element per decimal digit of the SHAPE parameter; the
// digit is the element's length and every byte of an element is arbitrary
// except '/'. With the separators at fixed places the parser's path structure
// is fixed, so far longer optional parts are within reach than with the free
// tail of shapedInput (e.g. SHAPE=55 covers ".../MAV:P/MAC:H" and every other
// pair of 5-byte elements, well-formed or not).
func structInput() string {
	s := Header
	for i := 0; i < nBase; i++ {
		m := metrics[i]
		v := verif.NondetBytes("v_"+m.abv, 1)
		verif.Assume(v[0] != '/')
		if i > 0 || Header == "CVSS:4.0" {
			s += "/"
		}
		s += m.abv + ":" + v
	}
	shape := verif.Param("SHAPE", 55)
	var lens [12]int
	n := 0
	for shape > 0 && n < 12 {
		lens[n] = shape % 10
		shape /= 10
		n++
	}
	for j := n - 1; j >= 0; j-- {
		e := verif.NondetBytes(elemNames[n-1-j], lens[j])
		for k := 0; k < lens[j]; k++ {
			verif.Assume(e[k] != '/')
		}
		s += "/" + e
	}
	return s
}

// baseInput is the canonical base part with arbitrary value bytes (no tail).
func baseInput() string {
	s := Header
	for i := 0; i < nBase; i++ {
		m := metrics[i]
		v := verif.NondetBytes("v_"+m.abv, 1)
		verif.Assume(v[0] != '/')
		if i > 0 || Header == "CVSS:4.0" {
			s += "/"
		}
		s += m.abv + ":" + v
	}
	return s
}

// mutChunkN() positions are handled per run of a *Mutated harness.
func mutChunkN() int { return verif.Param("CHUNK", 16) }

// mutated returns the base part with one edit at byte position p: MUT=0 the
// byte is replaced by the arbitrary byte b, MUT=1 b is inserted before it,
// MUT=2 the byte is deleted. ok is false when the edit does not apply.
func mutated(base, b string, kind, p int) (string, bool) {
	switch kind {
	case 0:
		if p >= len(base) {
			return "", false
		}
		return base[:p] + b + base[p+1:], true
	case 1:
		if p > len(base) {
			return "", false
		}
		return base[:p] + b + base[p:], true
	}
	if p >= len(base) {
		return "", false
	}
	return base[:p] + base[p+1:], true
}

// shapedInputP is shapedInput over a second, independent set of arbitrary
// bytes (names prefixed with p).
func shapedInputP(p string) string {
	s := Header
	for i := 0; i < nBase; i++ {
		m := metrics[i]
		v := verif.NondetBytes(p+"v_"+m.abv, 1)
		verif.Assume(v[0] != '/')
		if i > 0 || Header == "CVSS:4.0" {
			s += "/"
		}
		s += m.abv + ":" + v
	}
	return s + verif.NondetString(p+"tail", tailBound())
}
