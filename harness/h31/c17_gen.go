package h31

import (
	"verifharness/verif"
)

var sinkS string
var sinkF float64
var sinkE error

// C17_Vector: Vector() performs exactly one heap allocation on every
// reachable object (and never appends beyond the capacity it computed, which
// would reallocate: separate growth obligations).
func C17_Vector() {
	var c CVSS
	verif.Havoc("c", &c)
	verif.Assume(inv(c))
	n := verif.Allocs(func() { sinkS = c.Vector() })
	verif.Assert(n == 1, "Vector() performs exactly one allocation")
}

// C17_Parse: a successful ParseVector performs at most one heap allocation.
func C17_Parse() {
	s := shapedInput()
	_, err := ParseVector(s)
	n := verif.Allocs(func() { _, sinkE = ParseVector(s) })
	if err == nil {
		verif.Assert(n <= 1, "successful ParseVector performs at most one allocation")
	}
}

// C17_ParseStruct: the same on the element-structured inputs (SHAPE).
func C17_ParseStruct() {
	s := structInput()
	_, err := ParseVector(s)
	n := verif.Allocs(func() { _, sinkE = ParseVector(s) })
	if err == nil {
		verif.Assert(n <= 1, "successful ParseVector performs at most one allocation")
	}
}

// C17_ParseAfterReject: steady state includes rejected inputs: a successful
// ParseVector that follows a rejected one still performs at most one
// allocation (a scratch buffer taken from a pool and not given back on an
// error path would make the next call allocate a new one).
func C17_ParseAfterReject() {
	bad := shapedInputP("x")
	good := shapedInput()
	_, e1 := ParseVector(bad)
	_, e2 := ParseVector(good)
	n := verif.AllocsAfter(func() { _, sinkE = ParseVector(bad) }, func() { _, sinkE = ParseVector(good) })
	if e1 != nil && e2 == nil {
		verif.Assert(n <= 1, "a successful ParseVector after a rejected one performs at most one allocation")
	}
}

// C17_GetSet: Get and Set on a known metric (legal or illegal value) do not allocate.
func C17_GetSet() {
	var c CVSS
	verif.Havoc("c", &c)
	verif.Assume(inv(c))
	abv := metrics[verif.NondetInt("m", 0, len(metrics)-1)].abv
	val := verif.NondetString("val", -8)
	n := verif.Allocs(func() { sinkS, sinkE = c.Get(abv) })
	verif.Assert(n == 0, "Get on a known metric does not allocate")
	d := c
	n = verif.Allocs(func() { sinkE = d.Set(abv, val) })
	verif.Assert(n == 0, "Set on a known metric does not allocate")
}
