package h31

// refResult is what the specification says about a string.
type refResult struct {
	ok   bool
	seen [22]bool
	val  [22]int // value index per metric (0 = X for absent optional metrics)
}

// refParse: "CVSS:3.1/" then "abv:val" elements separated by '/', in any
// order, no metric twice, the eight base metrics all present.
func refParse(s string) refResult {
	var r refResult
	if len(s) < len(Header) || s[:len(Header)] != Header {
		return r
	}
	rest := s[len(Header):]
	start := 0
	bad := false
	for i := 0; i <= len(rest); i++ {
		if i != len(rest) && rest[i] != '/' {
			continue
		}
		k, vi := matchElement(rest[start:i])
		start = i + 1
		if k < 0 {
			bad = true
		} else {
			if r.seen[k] {
				bad = true
			}
			r.seen[k] = true
			r.val[k] = vi
		}
	}
	for k := 0; k < nBase; k++ {
		if !r.seen[k] {
			bad = true
		}
	}
	if bad {
		return refResult{}
	}
	r.ok = true
	return r
}
