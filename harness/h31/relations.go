package h31

import (
	"math"

	"verifharness/verif"
)

// severity orders of the specification, least severe first (not-defined
// values are aliases of their default, see xDefault)
var sevOrder = []metric{
	{"AV", []string{"P", "L", "A", "N"}},
	{"AC", []string{"H", "L"}},
	{"PR", []string{"H", "L", "N"}},
	{"UI", []string{"R", "N"}},
	{"S", []string{"U", "C"}},
	{"C", []string{"N", "L", "H"}},
	{"I", []string{"N", "L", "H"}},
	{"A", []string{"N", "L", "H"}},
	{"E", []string{"U", "P", "F", "H"}},
	{"RL", []string{"O", "T", "W", "U"}},
	{"RC", []string{"U", "R", "C"}},
	{"CR", []string{"L", "M", "H"}},
	{"IR", []string{"L", "M", "H"}},
	{"AR", []string{"L", "M", "H"}},
}

// what a not-defined optional metric scores as (specification section 3/4)
var xDefault = []metric{
	{"E", []string{"H"}}, {"RL", []string{"U"}}, {"RC", []string{"C"}},
	{"CR", []string{"M"}}, {"IR", []string{"M"}}, {"AR", []string{"M"}},
}

func sevRank(abv, v string) int {
	if v == "X" {
		for _, d := range xDefault {
			if d.abv == abv {
				v = d.vals[0]
			}
		}
	}
	for _, m := range sevOrder {
		if m.abv == abv {
			return idx(v, m.vals)
		}
	}
	return 0
}

// rank is the severity rank of the effective value of a base, temporal or
// requirement metric.
func rank(c CVSS, abv string) int {
	return sevRank(abv, get(c, abv))
}

// effRank is the severity rank of the effective modified base metric: the
// Modified metric when defined, the base metric when X.
func effRank(c CVSS, i int) int {
	v := get(c, modAbvs[i])
	if v == "X" {
		v = get(c, baseAbvs[i])
	}
	return sevRank(baseAbvs[i], v)
}

func oneDecimal(s float64, lo, hi float64) bool {
	k := math.Round(s * 10)
	return s == s && k >= lo && k <= hi && s == k/10
}

// C10_Base: BaseScore depends on the eight base metrics only.
func C10_Base() {
	c := havocReachable()
	verif.Functional("base", c.BaseScore(), rank(c, "AV"), rank(c, "AC"), rank(c, "PR"), rank(c, "UI"), rank(c, "S"), rank(c, "C"), rank(c, "I"), rank(c, "A"))
}

// C10_Temporal: TemporalScore depends on the base metrics and on the
// effective E, RL, RC only (X scores as the default).
func C10_Temporal() {
	c := havocReachable()
	verif.Functional("temporal", c.TemporalScore(), rank(c, "AV"), rank(c, "AC"), rank(c, "PR"), rank(c, "UI"), rank(c, "S"), rank(c, "C"), rank(c, "I"), rank(c, "A"),
		rank(c, "E"), rank(c, "RL"), rank(c, "RC"))
}

// C10_Environmental: EnvironmentalScore depends on each overridable base
// metric only through its effective value, and on the effective CR IR AR E
// RL RC.
func C10_Environmental() {
	c := havocReachable()
	verif.Functional("env", c.EnvironmentalScore(), effRank(c, 0), effRank(c, 1), effRank(c, 2), effRank(c, 3), effRank(c, 4), effRank(c, 5), effRank(c, 6), effRank(c, 7),
		rank(c, "CR"), rank(c, "IR"), rank(c, "AR"), rank(c, "E"), rank(c, "RL"), rank(c, "RC"))
}

// C11_*: every score is a finite one-decimal number in [0, 10] that Rating
// accepts, and no scoring method panics.
func C11_Base() {
	c := havocReachable()
	b := c.BaseScore()
	verif.Assert(oneDecimal(b, 0, 100), "BaseScore is a finite one-decimal number in [0,10]")
	_, err := Rating(b)
	verif.Assert(err == nil, "Rating accepts BaseScore")
}

func C11_Temporal() {
	c := havocReachable()
	t := c.TemporalScore()
	verif.Assert(oneDecimal(t, 0, 100), "TemporalScore is a finite one-decimal number in [0,10]")
	_, err := Rating(t)
	verif.Assert(err == nil, "Rating accepts TemporalScore")
}

func C11_Environmental() {
	c := havocReachable()
	e := c.EnvironmentalScore()
	verif.Assert(oneDecimal(e, 0, 100), "EnvironmentalScore is a finite one-decimal number in [0,10]")
	_, err := Rating(e)
	verif.Assert(err == nil, "Rating accepts EnvironmentalScore")
}

// C12_Base: a more severe base metric never lowers BaseScore.
func C12_Base() {
	c := havocReachable()
	verif.Monotone("base", c.BaseScore(), rank(c, "AV"), rank(c, "AC"), rank(c, "PR"), rank(c, "UI"), rank(c, "S"), rank(c, "C"), rank(c, "I"), rank(c, "A"))
}

// C12_Temporal: ... nor TemporalScore, in the base and temporal metrics.
func C12_Temporal() {
	c := havocReachable()
	verif.Monotone("temporal", c.TemporalScore(), rank(c, "AV"), rank(c, "AC"), rank(c, "PR"), rank(c, "UI"), rank(c, "S"), rank(c, "C"), rank(c, "I"), rank(c, "A"),
		rank(c, "E"), rank(c, "RL"), rank(c, "RC"))
}
