// Command replay runs one harness natively, against the real compiled
// go-cvss, under a model file written by the check driver.
// Exit status: 0 = no assertion failed, 3 = an assertion failed or the code
// panicked (the counterexample reproduces), 4 = the model violates an
// assumption of the harness (not a valid counterexample), 2 = usage.
package main

import (
	"encoding/json"
	"fmt"
	"os"
	"strings"

	"verifharness/verif"
)

func main() {
	if len(os.Args) != 2 {
		fmt.Println("usage: replay model.json")
		os.Exit(2)
	}
	b, err := os.ReadFile(os.Args[1])
	if err != nil {
		fmt.Println(err)
		os.Exit(2)
	}
	var hdr struct {
		Harness string `json:"harness"`
	}
	if err := json.Unmarshal(b, &hdr); err != nil {
		fmt.Println(err)
		os.Exit(2)
	}
	f, ok := registry[hdr.Harness]
	if !ok {
		fmt.Println("unknown harness", hdr.Harness)
		os.Exit(2)
	}
	var pm struct {
		Pair     []map[string]json.Number   `json:"pair"`
		Relation string                     `json:"relation"`
		Label    string                     `json:"label"`
		Tables   map[string]map[string]int  `json:"tables"`
	}
	_ = json.Unmarshal(b, &pm)
	if len(pm.Pair) == 2 {
		os.Exit(replayPair(hdr.Harness, f, pm.Pair, pm.Relation, pm.Label, pm.Tables))
	}
	if err := verif.LoadModelBytes(b); err != nil {
		fmt.Println(err)
		os.Exit(2)
	}
	st := verif.Run(f)
	var om struct {
		Oracle *struct {
			Name   string `json:"name"`
			Want10 int    `json:"want10"`
		} `json:"oracle"`
	}
	_ = json.Unmarshal(b, &om)
	if om.Oracle != nil && st == "ok" {
		r, ok := verif.Relations[om.Oracle.Name]
		if !ok {
			fmt.Println("oracle relation not observed")
			os.Exit(2)
		}
		fmt.Printf("replay %s: oracle %s: real code returns %v for levels %v, specification value %v\n", hdr.Harness, om.Oracle.Name, r.Val, r.Digits, float64(om.Oracle.Want10)/10)
		if r.Val != float64(om.Oracle.Want10)/10 {
			fmt.Println("  violated: the score differs from the exact specification value")
			os.Exit(3)
		}
		os.Exit(0)
	}
	fmt.Printf("replay %s: %s\n", hdr.Harness, st)
	for _, l := range verif.Failures {
		fmt.Println("  failed assertion:", l)
	}
	for k, v := range verif.Observed {
		fmt.Printf("  observed %s = %s\n", k, v)
	}
	switch {
	case st == "ok":
		os.Exit(0)
	case st == "assume-failed":
		os.Exit(4)
	case strings.HasPrefix(st, "panic: verif."):
		os.Exit(2)
	default:
		os.Exit(3)
	}
}

// replayPair replays a 2-safety counterexample: the harness is run on two
// inputs and the values it passed to verif.Functional / verif.Monotone are
// compared.
func replayPair(name string, f func(), pair []map[string]json.Number, relation, label string, tables map[string]map[string]int) int {
	var obs [2]verif.Relation
	for i := 0; i < 2; i++ {
		m := map[string]any{"harness": name, "values": pair[i], "tables": tables}
		mb, _ := json.Marshal(m)
		if err := verif.LoadModelBytes(mb); err != nil {
			fmt.Println(err)
			return 2
		}
		st := verif.Run(f)
		if st == "assume-failed" {
			fmt.Printf("replay %s: input %d violates an assumption\n", name, i)
			return 4
		}
		if strings.HasPrefix(st, "panic") {
			fmt.Printf("replay %s: %s\n", name, st)
			if strings.HasPrefix(st, "panic: verif.") {
				return 2
			}
			return 3
		}
		r, ok := verif.Relations[label]
		if !ok {
			fmt.Printf("replay %s: relation %q not observed\n", name, label)
			return 2
		}
		obs[i] = r
	}
	fmt.Printf("replay %s %s(%s): digits %v -> %v, digits %v -> %v\n", name, relation, label, obs[0].Digits, obs[0].Val, obs[1].Digits, obs[1].Val)
	same := len(obs[0].Digits) == len(obs[1].Digits)
	up := 0
	for k := range obs[0].Digits {
		if !same {
			break
		}
		switch d := obs[1].Digits[k] - obs[0].Digits[k]; {
		case d == 0:
		case d == 1:
			up++
		default:
			same = false
		}
	}
	switch relation {
	case "functional":
		if same && up == 0 && obs[0].Val != obs[1].Val {
			fmt.Println("  violated: equal digits, different values")
			return 3
		}
	case "monotone":
		if same && up == 1 && obs[1].Val < obs[0].Val {
			fmt.Println("  violated: one severity step up lowers the value")
			return 3
		}
	}
	return 0
}
