// Command replay runs one harness natively, against the real compiled
// go-cvss, under a model file written by the check driver.
// Exit status: 0 = no assertion failed, 3 = an assertion failed or the code
// panicked (the counterexample reproduces), 4 = the model violates an
// assumption of the harness (not a valid counterexample), 2 = usage.
package main

import (
	"encoding/json"
	"fmt"
	"os"
	"strings"

	"verifharness/verif"
)

func main() {
	if len(os.Args) != 2 {
		fmt.Println("usage: replay model.json")
		os.Exit(2)
	}
	b, err := os.ReadFile(os.Args[1])
	if err != nil {
		fmt.Println(err)
		os.Exit(2)
	}
	var hdr struct {
		Harness string `json:"harness"`
	}
	if err := json.Unmarshal(b, &hdr); err != nil {
		fmt.Println(err)
		os.Exit(2)
	}
	f, ok := registry[hdr.Harness]
	if !ok {
		fmt.Println("unknown harness", hdr.Harness)
		os.Exit(2)
	}
	if err := verif.LoadModelBytes(b); err != nil {
		fmt.Println(err)
		os.Exit(2)
	}
	st := verif.Run(f)
	fmt.Printf("replay %s: %s\n", hdr.Harness, st)
	for _, l := range verif.Failures {
		fmt.Println("  failed assertion:", l)
	}
	for k, v := range verif.Observed {
		fmt.Printf("  observed %s = %s\n", k, v)
	}
	switch {
	case st == "ok":
		os.Exit(0)
	case st == "assume-failed":
		os.Exit(4)
	case strings.HasPrefix(st, "panic: verif."):
		os.Exit(2)
	default:
		os.Exit(3)
	}
}
