#!/bin/sh
# Generates the version-independent harness files of every version package
# from tmpl/*.go.tmpl, and h30 from h31 (the two packages have the same API).
set -e
cd "$(dirname "$0")"
mkdir -p h30
for f in h31/*.go; do
  case "$f" in *_gen.go|*_only31.go) continue;; esac
  sed -e 's/h31/h30/g; s/gocvss31/gocvss30/g; s/go-cvss\/31/go-cvss\/30/g; s/CVSS31/CVSS30/g; s/CVSS:3\.1/CVSS:3.0/g; s/v3\.1/v3.0/g; s/"v31_/"v30_/g' "$f" > "h30/$(basename "$f")"
done
for pkg in h20 h30 h31 h40; do
  for t in tmpl/*.go.tmpl; do
    b=$(basename "$t" .go.tmpl)
    # a version package can opt out of a template with a file <name>.skip
    [ -e "$pkg/$b.skip" ] && continue
    sed -e "s/^package PKG/package $pkg/" "$t" > "$pkg/${b}_gen.go"
  done
done
