// Package verif holds the intrinsics that the symbolic executor (gosmt)
// intercepts by name. Natively they are ordinary functions driven by a model
// file, so that the very same harness can be replayed against the real,
// compiled go-cvss: Nondet*/Havoc return the values of the solver's model,
// Assume aborts the replay when the model does not satisfy an assumption,
// Assert records a failure.
package verif

import (
	"encoding/json"
	"fmt"
	"math"
	"os"
	"reflect"
	"runtime"
	"strings"
	"testing"
	"unsafe"
)

type model struct {
	Harness string                    `json:"harness"`
	Values  map[string]json.Number    `json:"values"`
	Tables  map[string]map[string]int `json:"tables"`
}

var (
	cur      *model
	Failures []string
	Observed = map[string]string{}
	// AssumeFailed is set when the model violates an Assume (replay not valid).
	AssumeFailed bool
)

type assumeAbort struct{}

// LoadModel reads a model (JSON written by the check driver).
func LoadModel(path string) error {
	b, err := os.ReadFile(path)
	if err != nil {
		return err
	}
	return LoadModelBytes(b)
}

func LoadModelBytes(b []byte) error {
	m := &model{}
	if err := json.Unmarshal(b, m); err != nil {
		return err
	}
	cur = m
	Failures = nil
	AssumeFailed = false
	Observed = map[string]string{}
	return nil
}

// Run executes a harness function under the loaded model and reports
// ("ok" | "violated" | "assume-failed" | "panic: ...").
func Run(f func()) (status string) {
	defer func() {
		if r := recover(); r != nil {
			if _, ok := r.(assumeAbort); ok {
				status = "assume-failed"
				return
			}
			status = fmt.Sprintf("panic: %v", r)
		}
	}()
	f()
	if len(Failures) > 0 {
		return "violated"
	}
	return "ok"
}

func val(name string) (uint64, bool) {
	if cur == nil {
		return 0, false
	}
	n, ok := cur.Values[name]
	if !ok {
		return 0, false
	}
	var u uint64
	if _, err := fmt.Sscan(string(n), &u); err != nil {
		return 0, false
	}
	return u, true
}

// NondetString returns an arbitrary byte string of length <= maxLen.
// maxLen < 0: arbitrary length, only the first -maxLen bytes are explicit
// (the executor only allows comparisons with short strings on it).
func NondetString(name string, maxLen int) string {
	l, _ := val(name + "_len")
	n := int(int64(l))
	if maxLen >= 0 && n > maxLen {
		n = maxLen
	}
	if n < 0 {
		n = 0
	}
	if n > 4096 {
		n = 4096
	}
	b := make([]byte, n)
	for i := range b {
		v, ok := val(fmt.Sprintf("%s_b%d", name, i))
		if ok {
			b[i] = byte(v)
		} else {
			b[i] = 'Z' // byte not constrained by the model
		}
	}
	return string(b)
}

// NondetUint8 returns an arbitrary byte.
func NondetUint8(name string) uint8 { v, _ := val(name); return uint8(v) }

// NondetInt returns an arbitrary int in [lo, hi].
func NondetInt(name string, lo, hi int) int {
	v, _ := val(name)
	if hi-lo < 256 {
		return lo + int(uint8(v))
	}
	return int(int64(v))
}

// NondetBool returns an arbitrary bool.
func NondetBool(name string) bool { v, _ := val(name); return v != 0 }

// NondetFloat64 returns an arbitrary float64 bit pattern.
func NondetFloat64(name string) float64 { v, _ := val(name); return math.Float64frombits(v) }

// Havoc makes every scalar field of *p (a pointer to a struct of uint8
// fields) arbitrary.
func Havoc(name string, p any) {
	rv := reflect.ValueOf(p).Elem()
	rt := rv.Type()
	base := unsafe.Pointer(rv.UnsafeAddr())
	for i := 0; i < rt.NumField(); i++ {
		f := rt.Field(i)
		v, _ := val(name + "_" + f.Name)
		switch f.Type.Kind() {
		case reflect.Uint8:
			*(*uint8)(unsafe.Add(base, f.Offset)) = uint8(v)
		case reflect.Bool:
			*(*bool)(unsafe.Add(base, f.Offset)) = v != 0
		default:
			panic("verif.Havoc: unsupported field kind " + f.Type.String())
		}
	}
}

// Assume restricts the inputs considered from here on.
func Assume(c bool) {
	if !c {
		AssumeFailed = true
		panic(assumeAbort{})
	}
}

// Assert states a proof obligation.
func Assert(c bool, label string) {
	if !c {
		Failures = append(Failures, label)
	}
}

// Unwind sets the loop unrolling bound for loops whose trip count is not
// concrete (checked by an unwinding assertion).
func Unwind(n int) {}

// Table looks a key up in an exact oracle table computed from the
// specification by /verif/spec (exact rationals, no floats).
func Table(name string, key int) int {
	if cur != nil {
		if t, ok := cur.Tables[name]; ok {
			if v, ok := t[fmt.Sprint(key)]; ok {
				return v
			}
		}
	}
	panic(fmt.Sprintf("verif.Table: no entry %s[%d] in the replay model", name, key))
}

// Observe records a named value for counterexample replay and evidence.
func Observe(name string, v any) { Observed[name] = fmt.Sprint(v) }

// Relation is what a Functional / Monotone call saw in this run.
type Relation struct {
	Val    float64
	Digits []int
}

// Relations holds the last Functional / Monotone observation per name.
var Relations = map[string]Relation{}

// Functional states that val is a function of the digits over all inputs:
// any two inputs with equal digits give equal val (2-safety; decided by the
// check driver over the solver-enumerated cubes, replayed on input pairs).
func Functional(name string, val float64, digits ...int) {
	Relations[name] = Relation{val, append([]int(nil), digits...)}
}

// Monotone states that val never decreases when one digit (a severity rank,
// 0 = least severe) increases by one and the others stay fixed.
func Monotone(name string, val float64, digits ...int) {
	Relations[name] = Relation{val, append([]int(nil), digits...)}
}

// Param is a harness parameter fixed by the check driver for this run
// (bounds such as the maximal input length); natively it comes from the
// model file or the environment (VERIF_<name>), else the default.
func Param(name string, def int) int {
	if cur != nil {
		if v, ok := cur.Values["param_"+name]; ok {
			var n int
			if _, err := fmt.Sscan(string(v), &n); err == nil {
				return n
			}
		}
	}
	if s := os.Getenv("VERIF_" + name); s != "" {
		var n int
		if _, err := fmt.Sscan(s, &n); err == nil {
			return n
		}
	}
	return def
}

// Oracle states that val equals the specification value of the class given
// by the digits; the check driver computes the specification value exactly
// (/verif/spec) for every class the solver-derived cube table contains.
func Oracle(name string, val float64, digits ...int) {
	Relations[name] = Relation{val, append([]int(nil), digits...)}
}

// NondetBytes returns a string of exactly n arbitrary bytes.
func NondetBytes(name string, n int) string {
	b := make([]byte, n)
	for i := range b {
		v, ok := val(fmt.Sprintf("%s_b%d", name, i))
		if ok {
			b[i] = byte(v)
		} else {
			b[i] = 'Z'
		}
	}
	return string(b)
}

// ByteBuf returns an empty byte buffer with ample capacity (the executor
// models it as an append-only buffer).
func ByteBuf() []byte { return make([]byte, 0, 512) }

// AllocCount is, for the executor, the number of heap allocations performed
// so far on the current path; natively the allocation budget is measured with
// testing.AllocsPerRun by the replay, so it is constant here.
func AllocCount() int { return 0 }

// Allocs is the number of heap allocations one call of f performs, in steady
// state (natively measured with testing.AllocsPerRun).
func Allocs(f func()) int { return int(testing.AllocsPerRun(20, f)) }

// AllocsAfter is the number of heap allocations one call of f performs when it
// runs right after pre, in steady state; pre's own allocations are not
// counted, what pre leaves behind (for instance in a sync.Pool) is. Natively
// it is measured like testing.AllocsPerRun does (one P, malloc counter), around
// f only.
func AllocsAfter(pre, f func()) int {
	defer runtime.GOMAXPROCS(runtime.GOMAXPROCS(1))
	pre()
	f()
	const runs = 20
	var ms runtime.MemStats
	total := uint64(0)
	for i := 0; i < runs; i++ {
		pre()
		runtime.ReadMemStats(&ms)
		a := ms.Mallocs
		f()
		runtime.ReadMemStats(&ms)
		total += ms.Mallocs - a
	}
	return int(total / runs)
}

// PrimePool is a no-op for the executor (which models sync.Pool.Get as
// returning arbitrary contents). Natively, during a replay, it leaves in the
// package's pooled scratch slice the contents the solver chose for the k-th
// Get: it calls f with a string whose '/'-separated parts are those contents
// (the v2.0 parser splits its input into the pooled slice before validating).
func PrimePool(k int, f func(string)) {
	if cur == nil {
		return
	}
	parts := make([]string, 0, 14)
	for i := 0; i < 14; i++ {
		name := fmt.Sprintf("pool%d_%d", k, i)
		l, ok := val(name + "_len")
		if !ok {
			parts = append(parts, "")
			continue
		}
		n := int(l)
		if n > 2 {
			n = 2
		}
		b := make([]byte, n)
		for j := range b {
			v, _ := val(fmt.Sprintf("%s_b%d", name, j))
			b[j] = byte(v)
		}
		parts = append(parts, string(b))
	}
	f(strings.Join(parts, "/"))
}
