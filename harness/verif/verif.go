// Package verif holds the intrinsics that the symbolic executor (gosmt)
// intercepts. Natively they are ordinary functions so that harnesses compile
// and replay tests can link against them.
package verif

// NondetString returns an arbitrary byte string of length <= maxLen.
// maxLen < 0: arbitrary length, only comparisons with short strings allowed.
func NondetString(name string, maxLen int) string { return "" }

// NondetUint8 returns an arbitrary byte.
func NondetUint8(name string) uint8 { return 0 }

// NondetInt returns an arbitrary int in [lo, hi].
func NondetInt(name string, lo, hi int) int { return lo }

// NondetBool returns an arbitrary bool.
func NondetBool(name string) bool { return false }

// NondetFloat64 returns an arbitrary float64 bit pattern.
func NondetFloat64(name string) float64 { return 0 }

// Assume restricts the inputs considered from here on.
func Assume(c bool) {}

// Assert states a proof obligation.
func Assert(c bool, label string) {}

// Unwind sets the loop unrolling bound for loops whose trip count is not
// concrete (checked by an unwinding assertion).
func Unwind(n int) {}

// Table looks a key up in an exact oracle table computed from the
// specification by /verif/spec (exact rationals, no floats).
func Table(name string, key int) int { return 0 }

// Observe records a named value for counterexample replay and evidence.
func Observe(name string, v any) {}

// Havoc makes every scalar field of *p (a pointer to a struct) arbitrary.
func Havoc(name string, p any) {}
