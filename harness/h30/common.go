// Package h30 holds the harnesses for the CVSS v3.0 package (h30 is generated
// from it by gen.sh). Exported API only; the reference data is written from
// the property text / FIRST specification, not from the implementation.
package h30

import (
	gocvss30 "github.com/pandatix/go-cvss/30"
)

type CVSS = gocvss30.CVSS30

var ParseVector = gocvss30.ParseVector
var Rating = gocvss30.Rating

const Header = "CVSS:3.0/"


type ErrInvalidMetric = gocvss30.ErrInvalidMetric

var ErrInvalidMetricValue = gocvss30.ErrInvalidMetricValue
var ErrTooShortVector = gocvss30.ErrTooShortVector
var ErrInvalidCVSSHeader = gocvss30.ErrInvalidCVSSHeader
type ErrMissing = gocvss30.ErrMissing
type ErrDefinedN = gocvss30.ErrDefinedN

type metric struct {
	abv  string
	vals []string
}

const nBase = 8

// metrics in specification order; the first value of an optional metric is "X"
var metrics = []metric{
	{"AV", []string{"N", "A", "L", "P"}},
	{"AC", []string{"L", "H"}},
	{"PR", []string{"N", "L", "H"}},
	{"UI", []string{"N", "R"}},
	{"S", []string{"U", "C"}},
	{"C", []string{"H", "L", "N"}},
	{"I", []string{"H", "L", "N"}},
	{"A", []string{"H", "L", "N"}},
	{"E", []string{"X", "H", "F", "P", "U"}},
	{"RL", []string{"X", "U", "W", "T", "O"}},
	{"RC", []string{"X", "C", "R", "U"}},
	{"CR", []string{"X", "H", "M", "L"}},
	{"IR", []string{"X", "H", "M", "L"}},
	{"AR", []string{"X", "H", "M", "L"}},
	{"MAV", []string{"X", "N", "A", "L", "P"}},
	{"MAC", []string{"X", "L", "H"}},
	{"MPR", []string{"X", "N", "L", "H"}},
	{"MUI", []string{"X", "N", "R"}},
	{"MS", []string{"X", "U", "C"}},
	{"MC", []string{"X", "H", "L", "N"}},
	{"MI", []string{"X", "H", "L", "N"}},
	{"MA", []string{"X", "H", "L", "N"}},
}
