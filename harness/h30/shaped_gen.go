package h30

import (
	"verifharness/verif"
)

// tailBound is the length bound of the free tail of the structured inputs.
func tailBound() int { return verif.Param("TAIL_N", 16) }

// shapedInput is the canonical spelling of the base metrics (header, the
// mandatory metrics in specification order) in which every VALUE is an
// arbitrary byte other than '/', followed by an arbitrary byte string of
// length <= tailBound(). It reaches the accepted vectors (which are longer
// than the all-bytes-arbitrary bound) while keeping every value and the whole
// optional part arbitrary.
func shapedInput() string {
	s := Header
	for i := 0; i < nBase; i++ {
		m := metrics[i]
		v := verif.NondetBytes("v_"+m.abv, 1)
		verif.Assume(v[0] != '/')
		if i > 0 || Header == "CVSS:4.0" {
			s += "/"
		}
		s += m.abv + ":" + v
	}
	return s + verif.NondetString("tail", tailBound())
}
