package h30

import (
	"verifharness/verif"
)

// idx is the position of v in vals (the specification's value list).
func idx(v string, vals []string) int {
	for i, x := range vals {
		if v == x {
			return i
		}
	}
	return 0
}

func get(c CVSS, abv string) string {
	v, _ := c.Get(abv)
	return v
}

// keyOf packs the value indices of the listed metrics (mixed radix, in order).
func keyOf(c CVSS, abvs []string) int {
	k := 0
	for _, abv := range abvs {
		for _, m := range metrics {
			if m.abv == abv {
				k = k*len(m.vals) + idx(get(c, abv), m.vals)
			}
		}
	}
	return k
}

var baseAbvs = []string{"AV", "AC", "PR", "UI", "S", "C", "I", "A"}
var tempAbvs = []string{"E", "RL", "RC"}
var reqAbvs = []string{"CR", "IR", "AR"}
var modAbvs = []string{"MAV", "MAC", "MPR", "MUI", "MS", "MC", "MI", "MA"}

// effKey packs the EFFECTIVE modified base metrics: the Modified metric when
// it is defined, the base metric when it is X (specification section 4.2 /
// property C10), as indices into the base metric's value list.
func effKey(c CVSS) int {
	k := 0
	for i, mabv := range modAbvs {
		babv := baseAbvs[i]
		v := get(c, mabv)
		if v == "X" {
			v = get(c, babv)
		}
		for _, m := range metrics {
			if m.abv == babv {
				k = k*len(m.vals) + idx(v, m.vals)
			}
		}
	}
	return k
}

func near(got float64, e12 int) bool {
	d := got - float64(e12)/1e12
	return d < 1e-9 && d > -1e-9
}

func havocReachable() CVSS {
	var c CVSS
	verif.Havoc("c", &c)
	verif.Assume(inv(c))
	return c
}

// C03_Base: BaseScore equals the specification value for every reachable object.
func C03_Base() {
	c := havocReachable()
	want := verif.Table("v30_base", keyOf(c, baseAbvs))
	verif.Assert(c.BaseScore() == float64(want)/10, "BaseScore equals the specification equations")
}

// C03_SubScores: Impact and Exploitability are the unrounded sub-scores.
func C03_SubScores() {
	c := havocReachable()
	k := keyOf(c, baseAbvs)
	verif.Assert(near(c.Impact(), verif.Table("v30_impact_e12", k)), "Impact equals the specification sub-score")
	verif.Assert(near(c.Exploitability(), verif.Table("v30_expl_e12", k)), "Exploitability equals the specification sub-score")
}

// C03_Temporal: TemporalScore = Roundup(BaseScore x E x RL x RC).
func C03_Temporal() {
	c := havocReachable()
	base := verif.Table("v30_base", keyOf(c, baseAbvs))
	want := verif.Table("v30_temporalize", base*100+keyOf(c, tempAbvs))
	verif.Assert(c.TemporalScore() == float64(want)/10, "TemporalScore equals the specification equations")
}

// C03_Environmental: EnvironmentalScore over the effective modified metrics.
func C03_Environmental() {
	c := havocReachable()
	mb := verif.Table("v30_modbase", effKey(c)*64+keyOf(c, reqAbvs))
	want := verif.Table("v30_envfinal", (mb+1)*100+keyOf(c, tempAbvs))
	verif.Assert(c.EnvironmentalScore() == float64(want)/10, "EnvironmentalScore equals the specification equations")
}
