package h30

import (
	"verifharness/verif"
)

// C18_Header: every string (up to 14 bytes) without the version's header is
// refused with ErrInvalidCVSSHeader.
func C18_Header() {
	s := verif.NondetString("s", 14)
	_, err := ParseVector(s)
	if len(s) < len(Header) || s[:len(Header)] != Header {
		verif.Assert(err == ErrInvalidCVSSHeader, "wrong or missing header yields ErrInvalidCVSSHeader")
	}
}
