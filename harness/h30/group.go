package h30

// groupWritten: v3 writes an optional metric iff it is defined.
func groupWritten(c CVSS, i int, v, notDef string) bool {
	return v != notDef
}
