package h30

import "verifharness/verif"

func selftestScores(c CVSS) {
	verif.Observe("base", c.BaseScore())
	verif.Observe("temporal", c.TemporalScore())
	verif.Observe("environmental", c.EnvironmentalScore())
}
