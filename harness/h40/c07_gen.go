package h40

import (
	"verifharness/verif"
)

// C07_Set: on any reachable object, Set(abv, v) with arbitrary strings either
// succeeds, makes Get(abv) == v and leaves every other metric unchanged, or
// fails and leaves the object unchanged. The result is reachable again (I2).
func C07_Set() {
	var c CVSS
	verif.Havoc("c", &c)
	verif.Assume(inv(c))
	abv := verif.NondetString("abv", -8)
	val := verif.NondetString("val", -8)
	d := c
	err := d.Set(abv, val)
	if err != nil {
		verif.Assert(d == c, "failed Set leaves the object unchanged")
	} else {
		g, gerr := d.Get(abv)
		verif.Assert(gerr == nil && g == val, "Get returns the value just set")
		for _, m := range metrics {
			if m.abv != abv {
				before, _ := c.Get(m.abv)
				after, _ := d.Get(m.abv)
				verif.Assert(before == after, "other metric unchanged")
			}
		}
	}
	verif.Assert(inv(d), "object after Set is reachable (I2)")
}

// C07_Zero: the zero value is a reachable object (I1).
func C07_Zero() {
	var c CVSS
	verif.Assert(inv(c), "zero value satisfies the invariant (I1)")
}

// C07_Eq: two reachable objects with the same Get values are ==.
func C07_Eq() {
	var a, b CVSS
	verif.Havoc("a", &a)
	verif.Havoc("b", &b)
	verif.Assume(inv(a))
	verif.Assume(inv(b))
	same := true
	for _, m := range metrics {
		x, _ := a.Get(m.abv)
		y, _ := b.Get(m.abv)
		if x != y {
			same = false
		}
	}
	if same {
		verif.Assert(a == b, "same metric values imply ==")
	}
}
