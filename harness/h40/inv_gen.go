package h40

func in(v string, vals []string) bool {
	for _, x := range vals {
		if v == x {
			return true
		}
	}
	return false
}

func isMetric(abv string) bool {
	for _, m := range metrics {
		if m.abv == abv {
			return true
		}
	}
	return false
}

func legal(abv, v string) bool {
	for _, m := range metrics {
		if m.abv == abv {
			return in(v, m.vals)
		}
	}
	return false
}

// inv is the reachability invariant of DESIGN section 5: every Get returns a
// value of the metric's list and rebuilding the object through Set from its
// Get values gives the same object.
func inv(c CVSS) bool {
	var r CVSS
	ok := true
	for _, m := range metrics {
		v, err := c.Get(m.abv)
		if err != nil || !in(v, m.vals) {
			ok = false
		}
		if r.Set(m.abv, v) != nil {
			ok = false
		}
	}
	return ok && r == c
}
