package h40

import (
	"verifharness/verif"
)

// C09_GetSet: Get and Set recognise exactly the metric abbreviations, Set
// accepts exactly the specified values, for strings of any length, on every
// reachable object.
func C09_GetSet() {
	var c CVSS
	verif.Havoc("c", &c)
	verif.Assume(inv(c))
	abv := verif.NondetString("abv", -8)
	val := verif.NondetString("val", -8)
	g, gerr := c.Get(abv)
	verif.Assert((gerr == nil) == isMetric(abv), "Get succeeds exactly on the specification's abbreviations")
	if gerr == nil {
		verif.Assert(legal(abv, g), "Get returns a legal, non-empty value")
	} else {
		verif.Assert(g == "", "failed Get returns the empty string")
	}
	d := c
	serr := d.Set(abv, val)
	verif.Assert((serr == nil) == legal(abv, val), "Set succeeds exactly on legal (metric, value) pairs")
}
