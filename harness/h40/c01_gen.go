package h40

import (
	"verifharness/verif"
)

// parseBound is the length bound of the parser harnesses (VERIF_PARSE_N).
func parseBound() int { return verif.Param("PARSE_N", 40) }

// C01_Accept: ParseVector accepts exactly the strings the grammar accepts,
// returns (non-nil, nil) or (nil, non-nil), and never panics.
func C01_Accept() {
	s := verif.NondetString("s", parseBound())
	c, err := ParseVector(s)
	ref := refParse(s)
	verif.Assert((err == nil) == ref.ok, "accepted exactly when the grammar accepts")
	verif.Assert((c != nil) == (err == nil), "non-nil object exactly when nil error")
}

// C01_AcceptShaped: the same on the structured inputs (canonical base part
// with arbitrary values, arbitrary tail).
func C01_AcceptShaped() {
	s := shapedInput()
	c, err := ParseVector(s)
	ref := refParse(s)
	verif.Assert((err == nil) == ref.ok, "accepted exactly when the grammar accepts")
	verif.Assert((c != nil) == (err == nil), "non-nil object exactly when nil error")
}
