package h40

import (
	"verifharness/verif"
)

var sinkV string

// C14_VectorStable: a string returned by Vector() is not changed by a later
// Vector() call on another object (the buffer behind it is never recycled).
func C14_VectorStable() {
	var c, d CVSS
	verif.Havoc("c", &c)
	verif.Assume(inv(c))
	verif.Havoc("d", &d)
	verif.Assume(inv(d))
	v := c.Vector()
	sinkV = d.Vector()
	verif.Assert(v == refSerialise(c), "a string returned by Vector() is unchanged after a later Vector() call")
}
