package h40

import (
	"math"

	"verifharness/verif"
)

func idx(v string, vals []string) int {
	for i, x := range vals {
		if v == x {
			return i
		}
	}
	return 0
}

func get(c CVSS, abv string) string {
	v, _ := c.Get(abv)
	return v
}

func havocReachable() CVSS {
	var c CVSS
	verif.Havoc("c", &c)
	verif.Assume(inv(c))
	return c
}

// severity levels, most severe first (specification section 8.2)
var levels = []metric{
	{"AV", []string{"N", "A", "L", "P"}},
	{"PR", []string{"N", "L", "H"}},
	{"UI", []string{"N", "P", "A"}},
	{"AC", []string{"L", "H"}},
	{"AT", []string{"N", "P"}},
	{"VC", []string{"H", "L", "N"}},
	{"VI", []string{"H", "L", "N"}},
	{"VA", []string{"H", "L", "N"}},
	{"CR", []string{"H", "M", "L"}},
	{"IR", []string{"H", "M", "L"}},
	{"AR", []string{"H", "M", "L"}},
	{"SC", []string{"H", "L", "N"}},
	{"SI", []string{"S", "H", "L", "N"}},
	{"SA", []string{"S", "H", "L", "N"}},
	{"E", []string{"A", "P", "U"}},
}

func level(abv, v string) int {
	for _, m := range levels {
		if m.abv == abv {
			return idx(v, m.vals)
		}
	}
	return 0
}

// eff is the severity level (0 = most severe value of the list above) of the
// effective value of a metric as the specification defines it (section 8.2,
// "m()"): the Modified metric when it is defined, else the base metric; E:X
// scores as A, CR/IR/AR:X as H.
func eff(c CVSS, abv string) int {
	switch abv {
	case "E":
		v := get(c, "E")
		if v == "X" {
			return level("E", "A")
		}
		return level("E", v)
	case "CR", "IR", "AR":
		v := get(c, abv)
		if v == "X" {
			return level(abv, "H")
		}
		return level(abv, v)
	}
	m := get(c, "M"+abv)
	if m != "X" {
		return level(abv, m)
	}
	return level(abv, get(c, abv))
}

// highest-severity vectors per equivalence set and level (specification
// tables 24-30; independent transcription, see /verif/spec/v4_data.json),
// as value lists in the order of the metric lists below
var eq1Metrics = []string{"AV", "PR", "UI"}
var eq1Max = [][][]string{
	{{"N", "N", "N"}},
	{{"A", "N", "N"}, {"N", "L", "N"}, {"N", "N", "P"}},
	{{"P", "N", "N"}, {"A", "L", "P"}},
}
var eq2Metrics = []string{"AC", "AT"}
var eq2Max = [][][]string{
	{{"L", "N"}},
	{{"H", "N"}, {"L", "P"}},
}
var eq36Metrics = []string{"VC", "VI", "VA", "CR", "IR", "AR"}
var eq36Max = [][][]string{ // index eq3*2+eq6
	{{"H", "H", "H", "H", "H", "H"}},
	{{"H", "H", "L", "M", "M", "H"}, {"H", "H", "H", "M", "M", "M"}},
	{{"L", "H", "H", "H", "H", "H"}, {"H", "L", "H", "H", "H", "H"}},
	{{"L", "H", "L", "H", "M", "H"}, {"L", "H", "H", "H", "M", "M"}, {"H", "L", "H", "M", "H", "M"}, {"H", "L", "L", "M", "H", "H"}, {"L", "L", "H", "H", "H", "M"}},
	{},
	{{"L", "L", "L", "H", "H", "H"}},
}
var eq4Metrics = []string{"SC", "SI", "SA"}
var eq4Max = [][][]string{
	{{"H", "S", "S"}},
	{{"H", "H", "H"}},
	{{"L", "L", "L"}},
}

// effective levels of the 15 scoring metrics, computed once per object
type effs struct {
	av, pr, ui, ac, at, vc, vi, va, cr, ir, ar, sc, si, sa, e int
}

func effsOf(c CVSS) effs {
	return effs{
		av: eff(c, "AV"), pr: eff(c, "PR"), ui: eff(c, "UI"), ac: eff(c, "AC"), at: eff(c, "AT"),
		vc: eff(c, "VC"), vi: eff(c, "VI"), va: eff(c, "VA"), cr: eff(c, "CR"), ir: eff(c, "IR"), ar: eff(c, "AR"),
		sc: eff(c, "SC"), si: eff(c, "SI"), sa: eff(c, "SA"), e: eff(c, "E"),
	}
}

func (x effs) of(abv string) int {
	switch abv {
	case "AV":
		return x.av
	case "PR":
		return x.pr
	case "UI":
		return x.ui
	case "AC":
		return x.ac
	case "AT":
		return x.at
	case "VC":
		return x.vc
	case "VI":
		return x.vi
	case "VA":
		return x.va
	case "CR":
		return x.cr
	case "IR":
		return x.ir
	case "AR":
		return x.ar
	case "SC":
		return x.sc
	case "SI":
		return x.si
	case "SA":
		return x.sa
	}
	return x.e
}

// refMV classifies the effective values (specification tables 24-29). In
// every list above level 0 is the value the tables test for (N for AV/PR/UI/
// AT, L for AC, H for the impacts and requirements, S for SI/SA, A for E).
func refMV(x effs) (int, int, int, int, int, int) {
	eq1 := 2
	if x.av == 0 && x.pr == 0 && x.ui == 0 {
		eq1 = 0
	} else if (x.av == 0 || x.pr == 0 || x.ui == 0) && x.av != 3 {
		eq1 = 1
	}
	eq2 := 1
	if x.ac == 0 && x.at == 0 {
		eq2 = 0
	}
	eq3 := 2
	if x.vc == 0 && x.vi == 0 {
		eq3 = 0
	} else if x.vc == 0 || x.vi == 0 || x.va == 0 {
		eq3 = 1
	}
	eq4 := 2
	if x.si == 0 || x.sa == 0 {
		eq4 = 0
	} else if x.sc == 0 || x.si == 1 || x.sa == 1 {
		eq4 = 1
	}
	eq5 := x.e
	eq6 := 1
	if (x.cr == 0 && x.vc == 0) || (x.ir == 0 && x.vi == 0) || (x.ar == 0 && x.va == 0) {
		eq6 = 0
	}
	return eq1, eq2, eq3, eq4, eq5, eq6
}

// refDistance is the sum of the severity distances of the vector's metrics of
// one equivalence set to the first highest-severity vector of its level that
// is at least as severe in every one of them.
func refDistance(x effs, abvs []string, maxes [][]string) int {
	res := 0
	found := false
	for _, mx := range maxes {
		sum := 0
		ok := true
		for i, abv := range abvs {
			d := x.of(abv) - level(abv, mx[i])
			if d < 0 {
				ok = false
			}
			sum += d
		}
		if ok && !found {
			found = true
			res = sum
		}
	}
	return res
}

// specKey packs what the specification's algorithm needs for the final,
// exact computation (done by /verif/spec/cvss4_spec.py): the MacroVector, the
// four distance sums and the no-impact flag.
func specKey(c CVSS) int {
	x := effsOf(c)
	eq1, eq2, eq3, eq4, eq5, eq6 := refMV(x)
	d1 := refDistance(x, eq1Metrics, eq1Max[eq1])
	d2 := refDistance(x, eq2Metrics, eq2Max[eq2])
	d36 := refDistance(x, eq36Metrics, eq36Max[eq3*2+eq6])
	d4 := refDistance(x, eq4Metrics, eq4Max[eq4])
	ni := 0
	if x.vc == 2 && x.vi == 2 && x.va == 2 && x.sc == 2 && x.si == 3 && x.sa == 3 {
		ni = 1
	}
	k := eq1
	k = k*2 + eq2
	k = k*3 + eq3
	k = k*3 + eq4
	k = k*3 + eq5
	k = k*2 + eq6
	k = k*16 + d1
	k = k*16 + d2
	k = k*16 + d36
	k = k*16 + d4
	k = k*2 + ni
	return k
}

// C04_Score: Score equals the specification's MacroVector algorithm,
// evaluated exactly and rounded half-up, on every reachable object: the
// driver compares the score of every solver-derived cube with the exact value
// of /verif/spec/cvss4_spec.py for the cube's effective severity levels.
// Since those levels are all the oracle sees, this also shows that the score
// depends on the effective values only (C10, v4.0 part).
func C04_Score() {
	c := havocReachable()
	x := effsOf(c)
	verif.Oracle("v4_score", c.Score(), x.av, x.pr, x.ui, x.ac, x.at, x.vc, x.vi, x.va, x.sc, x.si, x.sa, x.cr, x.ir, x.ar, x.e)
}

func oneDecimal(s float64, lo, hi float64) bool {
	k := math.Round(s * 10)
	return s == s && k >= lo && k <= hi && s == k/10
}

// C11_Score: the score is a finite one-decimal number in [0,10] that Rating
// accepts; Score never panics.
func C11_Score() {
	c := havocReachable()
	s := c.Score()
	verif.Assert(oneDecimal(s, 0, 100), "Score is a finite one-decimal number in [0,10]")
	_, err := Rating(s)
	verif.Assert(err == nil, "Rating accepts Score")
}

// C12_Score: one severity step up in one effective metric never lowers Score
// (all 15 scoring metrics; the digits are severity ranks, 0 = least severe).
func C12_Score() {
	c := havocReachable()
	x := effsOf(c)
	verif.Monotone("v4_score", c.Score(), 3-x.av, 2-x.pr, 2-x.ui, 1-x.ac, 1-x.at, 2-x.vc, 2-x.vi, 2-x.va, 2-x.sc, 3-x.si, 3-x.sa, 2-x.cr, 2-x.ir, 2-x.ar, 2-x.e)
}
