package h40

import (
	"math"

	"verifharness/verif"
)

func idx(v string, vals []string) int {
	for i, x := range vals {
		if v == x {
			return i
		}
	}
	return 0
}

func get(c CVSS, abv string) string {
	v, _ := c.Get(abv)
	return v
}

func havocReachable() CVSS {
	var c CVSS
	verif.Havoc("c", &c)
	verif.Assume(inv(c))
	return c
}

// eff is the effective value of a metric as the specification defines it
// (section 8.2, "m()"): the Modified metric when it is defined, else the base
// metric; E:X scores as A, CR/IR/AR:X as H.
func eff(c CVSS, abv string) string {
	switch abv {
	case "E":
		v := get(c, "E")
		if v == "X" {
			return "A"
		}
		return v
	case "CR", "IR", "AR":
		v := get(c, abv)
		if v == "X" {
			return "H"
		}
		return v
	}
	m := get(c, "M"+abv)
	if m != "X" {
		return m
	}
	return get(c, abv)
}

// severity levels, most severe first (specification section 8.2)
var levels = []metric{
	{"AV", []string{"N", "A", "L", "P"}},
	{"PR", []string{"N", "L", "H"}},
	{"UI", []string{"N", "P", "A"}},
	{"AC", []string{"L", "H"}},
	{"AT", []string{"N", "P"}},
	{"VC", []string{"H", "L", "N"}},
	{"VI", []string{"H", "L", "N"}},
	{"VA", []string{"H", "L", "N"}},
	{"CR", []string{"H", "M", "L"}},
	{"IR", []string{"H", "M", "L"}},
	{"AR", []string{"H", "M", "L"}},
	{"SC", []string{"H", "L", "N"}},
	{"SI", []string{"S", "H", "L", "N"}},
	{"SA", []string{"S", "H", "L", "N"}},
}

func level(abv, v string) int {
	for _, m := range levels {
		if m.abv == abv {
			return idx(v, m.vals)
		}
	}
	return 0
}

// highest-severity vectors per equivalence set and level (specification
// tables 24-30; independent transcription, see /verif/spec/v4_data.json),
// as value lists in the order of the metric lists below
var eq1Metrics = []string{"AV", "PR", "UI"}
var eq1Max = [][][]string{
	{{"N", "N", "N"}},
	{{"A", "N", "N"}, {"N", "L", "N"}, {"N", "N", "P"}},
	{{"P", "N", "N"}, {"A", "L", "P"}},
}
var eq2Metrics = []string{"AC", "AT"}
var eq2Max = [][][]string{
	{{"L", "N"}},
	{{"H", "N"}, {"L", "P"}},
}
var eq36Metrics = []string{"VC", "VI", "VA", "CR", "IR", "AR"}
var eq36Max = [][][]string{ // index eq3*2+eq6
	{{"H", "H", "H", "H", "H", "H"}},
	{{"H", "H", "L", "M", "M", "H"}, {"H", "H", "H", "M", "M", "M"}},
	{{"L", "H", "H", "H", "H", "H"}, {"H", "L", "H", "H", "H", "H"}},
	{{"L", "H", "L", "H", "M", "H"}, {"L", "H", "H", "H", "M", "M"}, {"H", "L", "H", "M", "H", "M"}, {"H", "L", "L", "M", "H", "H"}, {"L", "L", "H", "H", "H", "M"}},
	{},
	{{"L", "L", "L", "H", "H", "H"}},
}
var eq4Metrics = []string{"SC", "SI", "SA"}
var eq4Max = [][][]string{
	{{"H", "S", "S"}},
	{{"H", "H", "H"}},
	{{"L", "L", "L"}},
}

// refMacroVector classifies the effective values (specification tables 24-29).
func refMacroVector(c CVSS) (int, int, int, int, int, int) {
	av, pr, ui := eff(c, "AV"), eff(c, "PR"), eff(c, "UI")
	eq1 := 2
	if av == "N" && pr == "N" && ui == "N" {
		eq1 = 0
	} else if (av == "N" || pr == "N" || ui == "N") && av != "P" {
		eq1 = 1
	}
	eq2 := 1
	if eff(c, "AC") == "L" && eff(c, "AT") == "N" {
		eq2 = 0
	}
	vc, vi, va := eff(c, "VC"), eff(c, "VI"), eff(c, "VA")
	eq3 := 2
	if vc == "H" && vi == "H" {
		eq3 = 0
	} else if vc == "H" || vi == "H" || va == "H" {
		eq3 = 1
	}
	sc, si, sa := eff(c, "SC"), eff(c, "SI"), eff(c, "SA")
	eq4 := 2
	if si == "S" || sa == "S" {
		eq4 = 0
	} else if sc == "H" || si == "H" || sa == "H" {
		eq4 = 1
	}
	eq5 := idx(eff(c, "E"), []string{"A", "P", "U"})
	eq6 := 1
	if (eff(c, "CR") == "H" && vc == "H") || (eff(c, "IR") == "H" && vi == "H") || (eff(c, "AR") == "H" && va == "H") {
		eq6 = 0
	}
	return eq1, eq2, eq3, eq4, eq5, eq6
}

// refDistance is the sum of the severity distances of the vector's metrics of
// one equivalence set to the first highest-severity vector of its level that
// is at least as severe in every one of them.
func refDistance(c CVSS, abvs []string, maxes [][]string) int {
	res := 0
	found := false
	for _, mx := range maxes {
		sum := 0
		ok := true
		for i, abv := range abvs {
			d := level(abv, eff(c, abv)) - level(abv, mx[i])
			if d < 0 {
				ok = false
			}
			sum += d
		}
		if ok && !found {
			found = true
			res = sum
		}
	}
	return res
}

func noImpact(c CVSS) bool {
	return eff(c, "VC") == "N" && eff(c, "VI") == "N" && eff(c, "VA") == "N" && eff(c, "SC") == "N" && eff(c, "SI") == "N" && eff(c, "SA") == "N"
}

// specKey packs what the specification's algorithm needs for the final,
// exact computation (done by /verif/spec/cvss4_spec.py): the MacroVector, the
// four distance sums and the no-impact flag.
func specKey(c CVSS) int {
	eq1, eq2, eq3, eq4, eq5, eq6 := refMacroVector(c)
	d1 := refDistance(c, eq1Metrics, eq1Max[eq1])
	d2 := refDistance(c, eq2Metrics, eq2Max[eq2])
	d36 := refDistance(c, eq36Metrics, eq36Max[eq3*2+eq6])
	d4 := refDistance(c, eq4Metrics, eq4Max[eq4])
	ni := 0
	if noImpact(c) {
		ni = 1
	}
	k := eq1
	k = k*2 + eq2
	k = k*3 + eq3
	k = k*3 + eq4
	k = k*3 + eq5
	k = k*2 + eq6
	k = k*16 + d1
	k = k*16 + d2
	k = k*16 + d36
	k = k*16 + d4
	k = k*2 + ni
	return k
}

// C04_Score: Score equals the specification's MacroVector algorithm,
// evaluated exactly and rounded half-up, on every reachable object. Since the
// key depends on the object only through its effective values, this also
// shows that the score depends on nothing else (C10, v4.0 part).
func C04_Score() {
	c := havocReachable()
	want := verif.Table("v4_final", specKey(c))
	verif.Assert(c.Score() == float64(want)/10, "Score equals the MacroVector algorithm of the specification")
}

func oneDecimal(s float64, lo, hi float64) bool {
	k := math.Round(s * 10)
	return s == s && k >= lo && k <= hi && s == k/10
}

// C11_Score: the score is a finite one-decimal number in [0,10] that Rating
// accepts; Score never panics.
func C11_Score() {
	c := havocReachable()
	s := c.Score()
	verif.Assert(oneDecimal(s, 0, 100), "Score is a finite one-decimal number in [0,10]")
	_, err := Rating(s)
	verif.Assert(err == nil, "Rating accepts Score")
}
