package h40

// groupWritten: v4 writes an optional metric iff it is defined.
func groupWritten(c CVSS, i int, v, notDef string) bool {
	return v != notDef
}
