package h40

import "verifharness/verif"

func selftestScores(c CVSS) {
	verif.Observe("score", c.Score())
}
