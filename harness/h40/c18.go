package h40

import (
	"verifharness/verif"
)

const (
	kNone = iota
	kOrder
	kBadValue
	kTooShort
)

func placeOK(k, pos int) bool {
	return k >= pos && (pos >= nBase || k == pos)
}

// checkParseError: wrong or missing header -> ErrInvalidCVSSHeader; exactly
// one defect -> misplaced / repeated / unknown metric: ErrInvalidMetricOrder,
// illegal value: ErrInvalidMetricValue, base group cut short:
// ErrTooShortVector; two or more defects are not constrained.
func checkParseError(s string) {
	_, err := ParseVector(s)
	if len(s) < len(Header) || s[:len(Header)] != Header {
		verif.Assert(err == ErrInvalidCVSSHeader, "wrong or missing header yields ErrInvalidCVSSHeader")
		return
	}
	rest := s[len(Header):]
	defects, kind := 0, kNone
	pos := 0
	cut := 0
	if len(rest) > 0 && rest[0] != '/' {
		defects += 2
	}
	for i := 1; i <= len(rest); i++ {
		if i != len(rest) && rest[i] != '/' {
			continue
		}
		el := rest[cut+1 : i]
		cut = i
		k, _ := matchElement(el)
		if k >= 0 {
			if placeOK(k, pos) {
				pos = k + 1
			} else {
				defects++
				kind = kOrder
			}
			continue
		}
		pk := matchPrefix(el)
		if pk >= 0 && placeOK(pk, pos) {
			defects++
			kind = kBadValue
			pos = pk + 1
			continue
		}
		if pk >= 0 {
			defects += 2
			continue
		}
		defects++
		kind = kOrder
	}
	if pos < nBase {
		defects++
		kind = kTooShort
	}
	if defects != 1 {
		return
	}
	switch kind {
	case kOrder:
		verif.Assert(err == ErrInvalidMetricOrder, "a single misplaced, repeated or unknown metric yields ErrInvalidMetricOrder")
	case kBadValue:
		verif.Assert(err == ErrInvalidMetricValue, "a single illegal value yields ErrInvalidMetricValue")
	case kTooShort:
		verif.Assert(err == ErrTooShortVector, "a base group cut short yields ErrTooShortVector")
	}
}
