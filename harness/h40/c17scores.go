package h40

import (
	"verifharness/verif"
)

// C17_Scores: Score, Nomenclature and Rating do not allocate.
func C17_Scores() {
	var c CVSS
	verif.Havoc("c", &c)
	verif.Assume(inv(c))
	n := verif.Allocs(func() { sinkF = c.Score() })
	verif.Assert(n == 0, "Score does not allocate")
	n = verif.Allocs(func() { sinkS = c.Nomenclature() })
	verif.Assert(n == 0, "Nomenclature does not allocate")
	f := verif.NondetFloat64("score")
	n = verif.Allocs(func() { sinkS, sinkE = Rating(f) })
	verif.Assert(n == 0, "Rating does not allocate")
}
