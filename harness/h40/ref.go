package h40

// refResult is what the specification says about a string.
type refResult struct {
	ok  bool
	val [32]int // value index per metric (0 = X / first value for absent optional metrics)
}

// refParse: "CVSS:4.0" then "/abv:val" elements: the 11 base metrics in
// fixed order, then any subset of the optional metrics in specification
// order; nothing else before, between or after.
func refParse(s string) refResult {
	var r refResult
	if len(s) < len(Header) || s[:len(Header)] != Header {
		return r
	}
	rest := s[len(Header):]
	pos := 0 // index of the first metric that may still appear
	cut := 0
	bad := false
	for i := 1; i <= len(rest); i++ {
		if i != len(rest) && rest[i] != '/' {
			continue
		}
		// element rest[cut:i] must be "/abv:val"
		if rest[cut] != '/' {
			bad = true
		}
		k, vi := matchElement(rest[cut+1 : i])
		cut = i
		if k < 0 || k < pos || (pos < nBase && k != pos) {
			bad = true
		}
		if k >= 0 {
			r.val[k] = vi
			pos = k + 1
		}
	}
	// a lone header, or a first element that does not start at offset 0
	if len(rest) == 0 || pos < nBase || bad {
		return refResult{}
	}
	r.ok = true
	return r
}
