package h40

import (
	"verifharness/verif"
)

func checkValues(s string) {
	c, err := ParseVector(s)
	ref := refParse(s)
	if err == nil && ref.ok {
		for i, m := range metrics {
			v, gerr := c.Get(m.abv)
			verif.Assert(gerr == nil && v == m.vals[ref.val[i]], "Get returns the value written in the vector (not-defined when absent)")
		}
	}
}

// C06_Values: after a successful ParseVector(s), every Get(m) returns the
// value written for m in s, and the not-defined value for an omitted metric.
func C06_Values() {
	checkValues(verif.NondetString("s", parseBound()))
}

// C06_ValuesShaped: the same on the structured inputs.
func C06_ValuesShaped() {
	checkValues(shapedInput())
}

// C06_ValuesStruct: the same on the element-structured inputs (SHAPE).
func C06_ValuesStruct() {
	checkValues(structInput())
}
