// Package h40 holds the harnesses for the CVSS v4.0 package. Exported API
// only; the reference data is written from the property text / FIRST
// specification, not from the implementation.
package h40

import (
	gocvss40 "github.com/pandatix/go-cvss/40"
)

type CVSS = gocvss40.CVSS40

var ParseVector = gocvss40.ParseVector
var Rating = gocvss40.Rating

const Header = "CVSS:4.0"


type ErrInvalidMetric = gocvss40.ErrInvalidMetric

var ErrInvalidMetricValue = gocvss40.ErrInvalidMetricValue
var ErrTooShortVector = gocvss40.ErrTooShortVector
var ErrInvalidMetricOrder = gocvss40.ErrInvalidMetricOrder
var ErrInvalidCVSSHeader = gocvss40.ErrInvalidCVSSHeader

type metric struct {
	abv  string
	vals []string
}

const nBase = 11

// metrics in specification order; the first value of an optional metric is "X"
var metrics = []metric{
	{"AV", []string{"N", "A", "L", "P"}},
	{"AC", []string{"L", "H"}},
	{"AT", []string{"N", "P"}},
	{"PR", []string{"N", "L", "H"}},
	{"UI", []string{"N", "P", "A"}},
	{"VC", []string{"H", "L", "N"}},
	{"VI", []string{"H", "L", "N"}},
	{"VA", []string{"H", "L", "N"}},
	{"SC", []string{"H", "L", "N"}},
	{"SI", []string{"H", "L", "N"}},
	{"SA", []string{"H", "L", "N"}},
	{"E", []string{"X", "A", "P", "U"}},
	{"CR", []string{"X", "H", "M", "L"}},
	{"IR", []string{"X", "H", "M", "L"}},
	{"AR", []string{"X", "H", "M", "L"}},
	{"MAV", []string{"X", "N", "A", "L", "P"}},
	{"MAC", []string{"X", "L", "H"}},
	{"MAT", []string{"X", "N", "P"}},
	{"MPR", []string{"X", "N", "L", "H"}},
	{"MUI", []string{"X", "N", "P", "A"}},
	{"MVC", []string{"X", "H", "L", "N"}},
	{"MVI", []string{"X", "H", "L", "N"}},
	{"MVA", []string{"X", "H", "L", "N"}},
	{"MSC", []string{"X", "H", "L", "N"}},
	{"MSI", []string{"X", "S", "H", "L", "N"}},
	{"MSA", []string{"X", "S", "H", "L", "N"}},
	{"S", []string{"X", "N", "P"}},
	{"AU", []string{"X", "N", "Y"}},
	{"R", []string{"X", "A", "U", "I"}},
	{"V", []string{"X", "D", "C"}},
	{"RE", []string{"X", "L", "M", "H"}},
	{"U", []string{"X", "Clear", "Green", "Amber", "Red"}},
}
