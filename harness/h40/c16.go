package h40

import (
	"verifharness/verif"
)

var envMetrics = []string{"CR", "IR", "AR", "MAV", "MAC", "MAT", "MPR", "MUI", "MVC", "MVI", "MVA", "MSC", "MSI", "MSA"}

// C16_Nomenclature: CVSS-B, plus T iff E is defined, plus E iff some
// environmental metric is defined; on every reachable object.
func C16_Nomenclature() {
	var c CVSS
	verif.Havoc("c", &c)
	verif.Assume(inv(c))
	e, _ := c.Get("E")
	env := false
	for _, m := range envMetrics {
		v, _ := c.Get(m)
		if v != "X" {
			env = true
		}
	}
	want := "CVSS-B"
	if e != "X" {
		want += "T"
	}
	if env {
		want += "E"
	}
	n := c.Nomenclature()
	verif.Assert(n == want, "Nomenclature names exactly the metric groups in use")
	// the same statement, clause by clause
	verif.Assert(n == "CVSS-B" || n == "CVSS-BT" || n == "CVSS-BE" || n == "CVSS-BTE", "Nomenclature is one of the four specified names")
	verif.Assert((n == "CVSS-BT" || n == "CVSS-BTE") == (e != "X"), "T is named exactly when the threat metric E is defined")
	verif.Assert((n == "CVSS-BE" || n == "CVSS-BTE") == env, "E is named exactly when an environmental metric is defined")
}

// C16_OnlyThreatAndEnvironmental: base and supplemental metrics never affect
// the nomenclature: two reachable objects that agree on E and on every
// environmental metric have the same nomenclature (2-safety, one query).
func C16_OnlyThreatAndEnvironmental() {
	var c, d CVSS
	verif.Havoc("c", &c)
	verif.Assume(inv(c))
	verif.Havoc("d", &d)
	verif.Assume(inv(d))
	ce, _ := c.Get("E")
	de, _ := d.Get("E")
	same := ce == de
	for _, m := range envMetrics {
		cv, _ := c.Get(m)
		dv, _ := d.Get(m)
		if cv != dv {
			same = false
		}
	}
	if same {
		verif.Assert(c.Nomenclature() == d.Nomenclature(), "objects that agree on E and the environmental metrics have the same nomenclature")
	}
}
