package h40

import (
	"verifharness/verif"
)

var envMetrics = []string{"CR", "IR", "AR", "MAV", "MAC", "MAT", "MPR", "MUI", "MVC", "MVI", "MVA", "MSC", "MSI", "MSA"}

// C16_Nomenclature: CVSS-B, plus T iff E is defined, plus E iff some
// environmental metric is defined; on every reachable object.
func C16_Nomenclature() {
	var c CVSS
	verif.Havoc("c", &c)
	verif.Assume(inv(c))
	e, _ := c.Get("E")
	env := false
	for _, m := range envMetrics {
		v, _ := c.Get(m)
		if v != "X" {
			env = true
		}
	}
	want := "CVSS-B"
	if e != "X" {
		want += "T"
	}
	if env {
		want += "E"
	}
	verif.Assert(c.Nomenclature() == want, "Nomenclature names exactly the metric groups in use")
}
