// Package hcross holds the harnesses that involve several version packages.
package hcross

import (
	gocvss30 "github.com/pandatix/go-cvss/30"
	gocvss31 "github.com/pandatix/go-cvss/31"
	gocvss40 "github.com/pandatix/go-cvss/40"
	"verifharness/verif"
)

func wantRating(s float64) (string, bool) {
	// CVSS qualitative severity rating scale: 0.0 / 0.1-3.9 / 4.0-6.9 / 7.0-8.9 / 9.0-10.0
	if s < 0 || s > 10 {
		return "", false
	}
	if s < 0.1 {
		return "NONE", true
	}
	if s < 4.0 {
		return "LOW", true
	}
	if s < 7.0 {
		return "MEDIUM", true
	}
	if s < 9.0 {
		return "HIGH", true
	}
	return "CRITICAL", true
}

// C15_Rating: for every float64 other than NaN the three Rating functions
// follow the specification scale and agree with each other.
func C15_Rating() {
	s := verif.NondetFloat64("score")
	verif.Assume(s == s)
	want, ok := wantRating(s)
	r30, e30 := gocvss30.Rating(s)
	r31, e31 := gocvss31.Rating(s)
	r40, e40 := gocvss40.Rating(s)
	if ok {
		verif.Assert(e30 == nil && r30 == want, "3.0 rating follows the scale")
		verif.Assert(e31 == nil && r31 == want, "3.1 rating follows the scale")
		verif.Assert(e40 == nil && r40 == want, "4.0 rating follows the scale")
	} else {
		verif.Assert(e30 == gocvss30.ErrOutOfBoundsScore && r30 == "", "3.0 out of bounds error")
		verif.Assert(e31 == gocvss31.ErrOutOfBoundsScore && r31 == "", "3.1 out of bounds error")
		verif.Assert(e40 == gocvss40.ErrOutOfBoundsScore && r40 == "", "4.0 out of bounds error")
	}
}
