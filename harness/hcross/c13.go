package hcross

import (
	gocvss20 "github.com/pandatix/go-cvss/20"
	gocvss30 "github.com/pandatix/go-cvss/30"
	gocvss31 "github.com/pandatix/go-cvss/31"
	gocvss40 "github.com/pandatix/go-cvss/40"
	"verifharness/verif"
)

func b2i(b bool) int {
	if b {
		return 1
	}
	return 0
}

// C13_OneVersion: no byte string (up to the bound) is accepted by the
// parsers of two different versions.
func C13_OneVersion() {
	s := verif.NondetString("s", verif.Param("PARSE_N", 12))
	_, e20 := gocvss20.ParseVector(s)
	_, e30 := gocvss30.ParseVector(s)
	_, e31 := gocvss31.ParseVector(s)
	_, e40 := gocvss40.ParseVector(s)
	n := b2i(e20 == nil) + b2i(e30 == nil) + b2i(e31 == nil) + b2i(e40 == nil)
	verif.Assert(n <= 1, "at most one version accepts the string")
}

// shaped strings of each version: canonical base part with arbitrary values
// and an arbitrary tail (see shapedInput in the version packages)
func shaped(header string, slashFirst bool, abvs []string) string {
	s := header
	for i, abv := range abvs {
		v := verif.NondetBytes("v_"+abv, 1)
		verif.Assume(v[0] != '/')
		if i > 0 || slashFirst {
			s += "/"
		}
		s += abv + ":" + v
	}
	return s + verif.NondetString("tail", verif.Param("TAIL_N", 8))
}

var base2 = []string{"AV", "AC", "Au", "C", "I", "A"}
var base3 = []string{"AV", "AC", "PR", "UI", "S", "C", "I", "A"}
var base4 = []string{"AV", "AC", "AT", "PR", "UI", "VC", "VI", "VA", "SC", "SI", "SA"}

// C13_Shaped*: a string with the header and base part of one version (any
// values, any tail) is rejected by every other version's parser.
func C13_Shaped20() {
	s := shaped("", false, base2)
	_, e30 := gocvss30.ParseVector(s)
	_, e31 := gocvss31.ParseVector(s)
	_, e40 := gocvss40.ParseVector(s)
	verif.Assert(e30 != nil && e31 != nil && e40 != nil, "a v2.0-shaped vector is rejected by the 3.0, 3.1 and 4.0 parsers")
}

func C13_Shaped30() {
	s := shaped("CVSS:3.0/", false, base3)
	_, e20 := gocvss20.ParseVector(s)
	_, e31 := gocvss31.ParseVector(s)
	_, e40 := gocvss40.ParseVector(s)
	verif.Assert(e20 != nil && e31 != nil && e40 != nil, "a v3.0-shaped vector is rejected by the 2.0, 3.1 and 4.0 parsers")
}

func C13_Shaped31() {
	s := shaped("CVSS:3.1/", false, base3)
	_, e20 := gocvss20.ParseVector(s)
	_, e30 := gocvss30.ParseVector(s)
	_, e40 := gocvss40.ParseVector(s)
	verif.Assert(e20 != nil && e30 != nil && e40 != nil, "a v3.1-shaped vector is rejected by the 2.0, 3.0 and 4.0 parsers")
}

func C13_Shaped40() {
	s := shaped("CVSS:4.0", true, base4)
	_, e20 := gocvss20.ParseVector(s)
	_, e30 := gocvss30.ParseVector(s)
	_, e31 := gocvss31.ParseVector(s)
	verif.Assert(e20 != nil && e30 != nil && e31 != nil, "a v4.0-shaped vector is rejected by the 2.0, 3.0 and 3.1 parsers")
}

// C13_ForeignHeader: a string of ANY length (the first 16 bytes are explicit,
// the rest is only ever compared) that does not start with a version's header
// is rejected by that version's parser (3.0, 3.1, 4.0). With
// C13_VectorHeader (every Vector() output starts with its own version's
// header; "AV:" for v2.0) no Vector() output of one version is accepted by
// the 3.0/3.1/4.0 parser of another one, whatever its length.
func C13_ForeignHeader() {
	s := verif.NondetString("s", -16)
	// (nested ifs rather than ||: the path condition then contradicts the parser's own test syntactically)
	if len(s) >= 9 {
		if s[:9] != "CVSS:3.0/" {
			_, e := gocvss30.ParseVector(s)
			verif.Assert(e != nil, "a string without the 3.0 header is rejected by the 3.0 parser")
		}
		if s[:9] != "CVSS:3.1/" {
			_, e := gocvss31.ParseVector(s)
			verif.Assert(e != nil, "a string without the 3.1 header is rejected by the 3.1 parser")
		}
	} else {
		_, e0 := gocvss30.ParseVector(s)
		_, e1 := gocvss31.ParseVector(s)
		verif.Assert(e0 != nil && e1 != nil, "a string shorter than the header is rejected by the 3.0 and 3.1 parsers")
	}
	if len(s) >= 8 {
		if s[:8] != "CVSS:4.0" {
			_, e := gocvss40.ParseVector(s)
			verif.Assert(e != nil, "a string without the 4.0 header is rejected by the 4.0 parser")
		}
	} else {
		_, e := gocvss40.ParseVector(s)
		verif.Assert(e != nil, "a string shorter than the header is rejected by the 4.0 parser")
	}
}
