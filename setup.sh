#!/bin/sh
# Builds everything the checks need from files on disk only (offline).
set -e
DIR="$(cd "$(dirname "$0")" && pwd)"
. "$DIR/env.sh"
cd "$DIR"
mkdir -p bin evidence
(cd gosmt/ssajson && go build -o "$DIR/bin/ssajson" .)
./harness/gen.sh
(cd harness && go build ./... && go vet ./verif >/dev/null 2>&1 || true)
python3-vt -c "import z3; assert z3.get_version_string().startswith('5.'), z3.get_version_string()"
z3 --version
z3-new --version
cvc5 --version | head -1
python3-vt "$DIR/spec/cvss_spec.py" | tail -3
python3-vt "$DIR/spec/cvss4_spec.py"
python3-vt "$DIR/gosmt/precompute.py"
python3-vt "$DIR/gosmt/selftest.py"
echo setup ok
