# Probe 2: v4 ParseVector as propositional formula (byte vars, one-hot cut)
# Reference recogniser aligned on element boundaries but independently formulated ("element ending here is one of the legal ABV:VAL strings").
import sys, time
from z3 import *
LMAX = int(sys.argv[1])
ORDER = [
 ("AV","NALP"),("AC","HL"),("AT","NP"),("PR","HLN"),("UI","NPA"),("VC","HLN"),("VI","HLN"),("VA","HLN"),("SC","HLN"),("SI","HLN"),("SA","HLN"),
 ("E","XAPU"),
 ("CR","XHML"),("IR","XHML"),("AR","XHML"),("MAV","XNALP"),("MAC","XHL"),("MAT","XNP"),("MPR","XHLN"),("MUI","XNPA"),("MVC","XHLN"),("MVI","XHLN"),("MVA","XHLN"),("MSC","XHLN"),("MSI","XHLNS"),("MSA","XHLNS"),
 ("S","XNP"),("AU","XNY"),("R","XAUI"),("V","XDC"),("RE","XLMH"),("U",["X","Clear","Green","Amber","Red"]),
]
NM=len(ORDER); NB=11
b = [BitVec("b%d"%i, 8) for i in range(LMAX+1)]
Lh = [Bool("L%d"%i) for i in range(LMAX+1)]      # one-hot length L==i
oneL = And(Or(*Lh), *[Or(Not(Lh[i]),Not(Lh[j])) for i in range(LMAX+1) for j in range(i)])
def ch(c): return BitVecVal(ord(c),8)
def le(i): return Or(*Lh[i:])     # i <= L
def match(start, s, end):  # bytes start.. equal s, all < end (concrete)
    if start+len(s) > end: return BoolVal(False)
    return And(*[b[start+k]==ch(c) for k,c in enumerate(s)])
isS = [b[i]==ch('/') for i in range(LMAX+1)]
C = [b[i]==ch(':') for i in range(LMAX+1)]
# ---- code model ----
ret = BoolVal(False)
g = [BoolVal(k==0) for k in range(NM+1)]
fired = [None]*(LMAX+1)      # body fired at i (without the 'not returned' part): i<=L and (i==L or b[i]=='/')
for i in range(1, LMAX+1):
    fired[i] = And(le(i), Or(Lh[i], isS[i]))
for i in range(1, LMAX+1):
    body = And(fired[i], Not(ret))
    # cut candidates: c=0 if no fired in 1..i-1 else last fired
    cutc = []
    for c in range(0, i):
        nolater = And(*[Not(fired[t]) for t in range(c+1, i)])
        cutc.append(And(nolater, fired[c]) if c>0 else nolater)
    haspre = Or(*[And(cutc[c], isS[c]) for c in range(i)])
    abv_t=[[] for _ in range(NM)]; okv_t=[[] for _ in range(NM)]
    for c in range(i):
        plen = i-c-1; off=c+1
        for m,(n,vals) in enumerate(ORDER):
            ln=len(n)
            if plen < ln: continue
            mt = match(off, n, i)
            if plen == ln:
                abv_t[m].append(And(cutc[c], mt))       # no colon: abv=pt, v="" -> value invalid
            else:
                colon = C[off+ln]
                am = And(cutc[c], mt, colon)
                abv_t[m].append(am)
                vlen = plen-ln-1; voff=off+ln+1
                vs = [match(voff, v, i) for v in vals if len(v)==vlen]
                if vs: okv_t[m].append(And(am, Or(*vs)))
    abv = [Or(*t) if t else BoolVal(False) for t in abv_t]
    okv = [Or(*t) if t else BoolVal(False) for t in okv_t]
    matched = [BoolVal(False)]*NM
    for k in range(NB): matched[k] = And(g[k], abv[k])
    for k in range(NB, NM):
        matched[k] = Or(*[And(g[k0], abv[k], *[Not(abv[m]) for m in range(k0,k)]) for k0 in range(NB,k+1)])
    anym = Or(*matched)
    err_val = Or(*[And(matched[k], Not(okv[k])) for k in range(NM)])
    err = Or(Not(haspre), Not(anym), err_val)
    upd = And(body, Not(err))
    ret = Or(ret, And(body, err))
    g = [If(upd, (matched[k-1] if k>=1 else BoolVal(False)), g[k]) for k in range(NM+1)]
code_accept = And(Not(ret), Not(Or(*g[:NB])))
# ---- reference: aligned on boundaries, independent formulation ----
ELEMS = [[n+":"+v for v in vals] for n,vals in ORDER]
last = [BoolVal(k==0) for k in range(NM+1)]
rok = And(le(1), isS[0])
bnd = [None]*(LMAX+1)
for i in range(1, LMAX+1): bnd[i] = And(le(i), Or(Lh[i], isS[i]))
for i in range(1, LMAX+1):
    em = [BoolVal(False)]*NM
    for m in range(NM):
        alts=[]
        for e in ELEMS[m]:
            c = i-1-len(e)
            if c < 0: continue
            startok = BoolVal(True) if c==0 else bnd[c]
            alts.append(And(startok, match(c+1, e, i)))
        em[m] = Or(*alts) if alts else BoolVal(False)
    step_ok = Or(*([And(last[k], em[k]) for k in range(NB)] + [And(last[k0], em[k]) for k in range(NB,NM) for k0 in range(NB,k+1)]))
    newlast = [BoolVal(False)] + [ (And(last[k], em[k]) if k<NB else Or(*[And(last[k0], em[k]) for k0 in range(NB,k+1)])) for k in range(NM)]
    rok = And(rok, Implies(bnd[i], step_ok))
    last = [If(bnd[i], newlast[k], last[k]) for k in range(NM+1)]
ref_accept = And(rok, Or(*last[NB:]))
print("built", flush=True)
for name, q in [("code&!ref", And(code_accept, Not(ref_accept))), ("ref&!code", And(ref_accept, Not(code_accept))), ("witness", And(code_accept, Lh[LMAX]))]:
    s = Solver(); s.add(oneL, q)
    t=time.time(); r = s.check(); dt=time.time()-t
    print(name, r, "%.1fs"%dt, flush=True)
    if r == sat:
        m = s.model(); n = [i for i in range(LMAX+1) if is_true(m.eval(Lh[i]))][0]
        print("   ", repr("".join(chr(m.eval(b[t], model_completion=True).as_long()) for t in range(n))))
