# Probe: v4 Vector() on a symbolic object, buffer as per-position byte terms with small-set (guarded constant) length.
import sys, time
from z3 import *
ORDER = [
 ("AV","NALP"),("AC","HL"),("AT","NP"),("PR","HLN"),("UI","NPA"),("VC","HLN"),("VI","HLN"),("VA","HLN"),("SC","HLN"),("SI","HLN"),("SA","HLN"),
 ("E","XAPU"),
 ("CR","XHML"),("IR","XHML"),("AR","XHML"),("MAV","XNALP"),("MAC","XHL"),("MAT","XNP"),("MPR","XHLN"),("MUI","XNPA"),("MVC","XHLN"),("MVI","XHLN"),("MVA","XHLN"),("MSC","XHLN"),("MSI","XHLNS"),("MSA","XHLNS"),
 ("S","XNP"),("AU","XNY"),("R","XAUI"),("V","XDC"),("RE","XLMH"),("U",["X","Clear","Green","Amber","Red"]),
]
NB=11; MAX=200
def ch(c): return BitVecVal(ord(c),8)
codes = [BitVec("c_"+n, 3) for n,_ in ORDER]
dom = And(*[ULT(c, len(v)) for c,(n,v) in zip(codes,ORDER)])
out = [BitVecVal(0,8) for _ in range(MAX)]
lens = {0: BoolVal(True)}     # small-set: len -> guard
def app(out, lens, alts):
    # alts: list of (guard, string): exactly one guard true or none (then nothing appended)
    newlens = {}
    none = Not(Or(*[g for g,_ in alts]))
    for l,gl in lens.items():
        newlens[l] = Or(newlens.get(l, BoolVal(False)), And(gl, none))
        for g,s in alts:
            gg = And(gl, g)
            for t,c in enumerate(s):
                out[l+t] = If(gg, ch(c), out[l+t])
            nl = l+len(s)
            newlens[nl] = Or(newlens.get(nl, BoolVal(False)), gg)
    return out, {l:simplify(g) for l,g in newlens.items() if not is_false(simplify(g))}
out, lens = app(out, lens, [(BoolVal(True), "CVSS:4.0")])
for k,(n,vals) in enumerate(ORDER):
    present = BoolVal(True) if k<NB else codes[k]!=0
    out, lens = app(out, lens, [(present, "/"+n+":")])
    out, lens = app(out, lens, [(And(present, codes[k]==i), v) for i,v in enumerate(vals)])
print("len candidates", len(lens), flush=True)
# lenVec model
capterms = []
# reference walker (independent position small-set)
pos = {0: BoolVal(True)}
ok = BoolVal(True)
def expect(pos, ok, alts):
    newpos = {}
    none = Not(Or(*[g for g,_ in alts]))
    for p,gp in pos.items():
        newpos[p] = Or(newpos.get(p, BoolVal(False)), And(gp, none))
        for g,s in alts:
            gg = And(gp, g)
            ok = And(ok, Implies(gg, And(*[out[p+t]==ch(c) for t,c in enumerate(s)])))
            newpos[p+len(s)] = Or(newpos.get(p+len(s), BoolVal(False)), gg)
    return {p:simplify(g) for p,g in newpos.items() if not is_false(simplify(g))}, ok
pos, ok = expect(pos, ok, [(BoolVal(True), "CVSS:4.0")])
for k,(n,vals) in enumerate(ORDER):
    present = BoolVal(True) if k<NB else codes[k]!=0
    pos, ok = expect(pos, ok, [(And(present, codes[k]==i), "/"+n+":"+v) for i,v in enumerate(vals)])
same_len = And(*[Implies(g, lens.get(p, BoolVal(False))) for p,g in pos.items()])
good = And(ok, same_len)
s = Solver(); s.add(dom, Not(good))
t=time.time(); r=s.check(); print("Vector()==canonical(ref):", r, "%.1fs"%(time.time()-t), flush=True)
s = Solver(); s.add(dom, good, codes[31]==3, codes[15]==2, codes[12]==1)
t=time.time(); r=s.check(); print("witness:", r, "%.1fs"%(time.time()-t))
if r==sat:
    m=s.model(); n=[l for l,g in lens.items() if is_true(m.eval(g))][0]
    print("".join(chr(m.eval(out[t], model_completion=True).as_long()) for t in range(n)))
