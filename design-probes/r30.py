# Does "Roundup = smallest 1-decimal >= x over the reals" (v3.0 text) ever differ from the v3.1 integer Roundup on exact values?
from fractions import Fraction as F
import itertools, math
def ru31(x):
    i = round(x*100000)
    return F(i,100000) if i%10000==0 else F(i//10000+1,10)
def ru30(x): return F(math.ceil(x*10),10)
AV=[F(85,100),F(62,100),F(55,100),F(2,10)]; AC=[F(77,100),F(44,100)]; UI=[F(85,100),F(62,100)]; CIA=[F(56,100),F(22,100),F(0)]
REQ=[F(1),F(15,10),F(1),F(1,2)]
E=[F(1),F(1),F(97,100),F(94,100),F(91,100)]; RL=[F(1),F(1),F(97,100),F(96,100),F(95,100)]; RC=[F(1),F(1),F(96,100),F(92,100)]
def prw(pr,s): return [F(85,100), F(68,100) if s else F(62,100), F(5,10) if s else F(27,100)][pr]
diffs=0; n=0; inner=set()
for av,ac,pr,ui,s,c,i,a,cr,ir,ar in itertools.product(range(4),range(2),range(3),range(2),range(2),range(3),range(3),range(3),range(1,4),range(1,4),range(1,4)):
    ex=F(822,100)*AV[av]*AC[ac]*prw(pr,s)*UI[ui]
    miss=min(1-(1-REQ[cr]*CIA[c])*(1-REQ[ir]*CIA[i])*(1-REQ[ar]*CIA[a]), F(915,1000))
    imp = F(642,100)*miss if s==0 else F(752,100)*(miss-F(29,1000))-F(325,100)*(miss-F(2,100))**15
    if imp<=0: x=None
    else:
        x = min(imp+ex,10) if s==0 else min(F(108,100)*(imp+ex),10)
        n+=1
        if ru30(x)!=ru31(x): diffs+=1; print("inner diff", (av,ac,pr,ui,s,c,i,a,cr,ir,ar), float(x), ru30(x), ru31(x))
        inner.add(ru30(x)); inner.add(ru31(x))
print("inner classes",n,"diffs",diffs)
d2=0
for k in sorted(inner):
    for e,rl,rc in itertools.product(set(E),set(RL),set(RC)):
        x=k*e*rl*rc
        if ru30(x)!=ru31(x): d2+=1; print("outer diff", k,e,rl,rc, float(x))
print("outer diffs", d2)
