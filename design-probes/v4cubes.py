import itertools
# severity index per metric (lower index = more severe), following 40/severity.go
AV="NALP"; PR="NLH"; UI="NPA"; AC="LH"; AT="NP"; VCIA="HLN"; SIA="SHLN"; REQ="HML"
MAX1={0:["NNN"],1:["ANN","NLN","NNP"],2:["PNN","ALP"]}          # AV PR UI
MAX2={0:["LN"],1:["LP","HN"]}                                    # AC AT
MAX4={0:["HSS"],1:["HHH"],2:["LLL"]}                             # SC SI SA
MAX36={(0,0):["HHHHHH"],(0,1):["HHLMMH","HHHMMM"],(1,0):["LHHHHH","HLHHHH"],(1,1):["HLHMHM","HLLMHH","LHHHMM","LHLHMH","LLHHHM"],(2,1):["LLLHHH"]}
def dists(v, mx, orders):
    return [o.index(a)-o.index(b) for a,b,o in zip(v,mx,orders)]
def outcomes(vals, orders, level, maxes):
    res={}
    for v in itertools.product(*vals):
        lv=level(v)
        cands=[sum(d) for mx in maxes[lv] for d in [dists(v,mx,orders)] if all(x>=0 for x in d)]
        res.setdefault((lv, tuple(sorted(set(cands)))),0)
        res[(lv, tuple(sorted(set(cands))))]+=1
    return res
def eq1(v):
    av,pr,ui=v
    if av=="N" and pr=="N" and ui=="N": return 0
    if (av=="N" or pr=="N" or ui=="N") and av!="P": return 1
    return 2
def eq2(v): return 0 if v==("L","N") else 1
def eq4(v):
    sc,si,sa=v
    if si=="S" or sa=="S": return 0
    if "H" in (sc,si,sa): return 1
    return 2
def eq36(v):
    vc,vi,va,cr,ir,ar=v
    e3 = 0 if (vc=="H" and vi=="H") else (1 if "H" in (vc,vi,va) else 2)
    e6 = 0 if ((cr=="H" and vc=="H") or (ir=="H" and vi=="H") or (ar=="H" and va=="H")) else 1
    return (e3,e6)
o1=outcomes([AV,PR,UI],[AV,PR,UI],eq1,MAX1)
o2=outcomes([AC,AT],[AC,AT],eq2,MAX2)
o4=outcomes(["HLN","SHLN","SHLN"],[VCIA,SIA,SIA],eq4,MAX4)
o36=outcomes([VCIA]*3+[REQ]*3,[VCIA]*3+[REQ]*3,eq36,MAX36)
for name,o in [("eq1",o1),("eq2",o2),("eq4",o4),("eq36",o36)]:
    print(name, len(o), "multi-valued (valid maxes give different sums):", [k for k in o if len(k[1])!=1])
print("tuple upper bound:", len(o1)*len(o2)*len(o4)*len(o36)*3)
