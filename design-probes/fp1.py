# Probe: v3.1 BaseScore encoded as SMT FP over symbolic metric codes, compared with exact-rational oracle table.
import time, itertools, sys
from fractions import Fraction as F
from z3 import *
import math

RNE = RNE()
F64 = Float64()
def c(x): return FPVal(x, F64)
def sel(code, vals):
    # vals: list of python floats; code: BitVec
    r = c(vals[-1])
    for i in range(len(vals)-2, -1, -1):
        r = If(code == i, c(vals[i]), r)
    return r
def roundup_fp(x):
    bx = fpRoundToIntegral(RNE, fpMul(RNE, x, c(100000.0)))
    ibx = fpToSBV(RTZ(), bx, BitVecSort(64))
    cond = SRem(ibx, BitVecVal(10000,64)) == 0
    a = fpDiv(RNE, bx, c(100000.0))
    b = fpDiv(RNE, fpAdd(RNE, fpRoundToIntegral(RTN(), fpDiv(RNE, bx, c(10000.0))), c(1.0)), c(10.0))
    return If(cond, a, b)
def pow13(f):
    f2 = fpMul(RNE,f,f); f4 = fpMul(RNE,f2,f2); f12 = fpMul(RNE, fpMul(RNE,f4,f4), f4)
    return fpMul(RNE, f, f12)
def pow15(f):
    return fpMul(RNE, fpMul(RNE, pow13(f), f), f)

av,ac,pr,ui,s,cc,ii,aa = [BitVec(n, 8) for n in "av ac pr ui s c i a".split()]
dom = And(ULE(av,3), ULE(ac,1), ULE(pr,2), ULE(ui,1), ULE(s,1), ULE(cc,2), ULE(ii,2), ULE(aa,2))
AV=[0.85,0.62,0.55,0.2]; AC=[0.77,0.44]; UI=[0.85,0.62]; CIA=[0.56,0.22,0.0]
prw = If(pr==0, c(0.85), If(pr==1, If(s==1, c(0.68), c(0.62)), If(s==1, c(0.5), c(0.27))))
expl = fpMul(RNE, fpMul(RNE, fpMul(RNE, fpMul(RNE, c(8.22), sel(av,AV)), sel(ac,AC)), prw), sel(ui,UI))
one = c(1.0)
iss = fpSub(RNE, one, fpMul(RNE, fpMul(RNE, fpSub(RNE,one,sel(cc,CIA)), fpSub(RNE,one,sel(ii,CIA))), fpSub(RNE,one,sel(aa,CIA))))
imp_u = fpMul(RNE, c(6.42), iss)
imp_c = fpSub(RNE, fpMul(RNE, c(7.52), fpSub(RNE, iss, c(0.029))), fpMul(RNE, c(3.25), pow15(fpSub(RNE, iss, c(0.02)))))
impact = If(s==0, imp_u, imp_c)
def fmin(a,b): return If(fpLT(a,b), a, b)
base = If(fpLEQ(impact, c(0.0)), c(0.0),
          If(s==0, roundup_fp(fmin(fpAdd(RNE, impact, expl), c(10.0))),
                   roundup_fp(fmin(fpMul(RNE, c(1.08), fpAdd(RNE, impact, expl)), c(10.0)))))

# exact oracle
def roundup_exact(x):
    i = round(x*100000)  # python round on Fraction: half-even
    if i % 10000 == 0: return F(i,100000)
    return F(i//10000 + 1, 10)
fAV=[F(85,100),F(62,100),F(55,100),F(2,10)]; fAC=[F(77,100),F(44,100)]; fUI=[F(85,100),F(62,100)]; fCIA=[F(56,100),F(22,100),F(0)]
def oracle(av,ac,pr,ui,s,c_,i,a):
    prw = [F(85,100), F(68,100) if s else F(62,100), F(5,10) if s else F(27,100)][pr]
    ex = F(822,100)*fAV[av]*fAC[ac]*prw*fUI[ui]
    iss = 1-(1-fCIA[c_])*(1-fCIA[i])*(1-fCIA[a])
    imp = F(642,100)*iss if s==0 else F(752,100)*(iss-F(29,1000)) - F(325,100)*(iss-F(2,100))**15
    if imp <= 0: return F(0)
    return roundup_exact(min(imp+ex,10)) if s==0 else roundup_exact(min(F(108,100)*(imp+ex),10))
# table as k (score*10) in an ite tree keyed by a packed index
idx = Concat(Extract(1,0,av),Extract(0,0,ac),Extract(1,0,pr),Extract(0,0,ui),Extract(0,0,s),Extract(1,0,cc),Extract(1,0,ii),Extract(1,0,aa))
tab = {}
for t in itertools.product(range(4),range(2),range(3),range(2),range(2),range(3),range(3),range(3)):
    k = oracle(*t)*10
    assert k.denominator==1
    key = (t[0]<<11)|(t[1]<<10)|(t[2]<<8)|(t[3]<<7)|(t[4]<<6)|(t[5]<<4)|(t[6]<<2)|t[7]
    tab[key]=int(k)
A = K(BitVecSort(13), BitVecVal(255,8))
# build nested ite as balanced tree over bits
def build(bits, prefix, depth):
    if depth==13:
        return BitVecVal(tab.get(prefix,255),8)
    b = 12-depth
    lo = build(bits, prefix, depth+1)
    hi = build(bits, prefix|(1<<b), depth+1)
    if lo.eq(hi): return lo
    return If(Extract(b,b,idx)==1, hi, lo)
kexp = build(None,0,0)
# expected float: k/10 computed as division in FP of integer k by 10 is the nearest double to k/10
kfp = fpDiv(RNE, fpToFP(RNE, ZeroExt(56,kexp), F64) if False else fpSignedToFP(RNE, ZeroExt(56,kexp), F64), c(10.0))
s_ = Solver()
s_.add(dom)
s_.add(Not(fpEQ(base, kfp)))
open("fp1.smt2","w").write("(set-logic ALL)\n"+s_.to_smt2())
t=time.time(); r = s_.check(); print("z3py", r, time.time()-t)
if r==sat: print(s_.model())
