# exact check: is v3.1 (and v3.0 base) monotone in each metric? (anticipates C12 on the unchanged tree)
from fractions import Fraction as F
import itertools, sys
ver = sys.argv[1]
def ru(x):
    i = round(x*100000)
    return F(i,100000) if i%10000==0 else F(i//10000+1,10)
# index = severity rank, low -> high
AV=[F(2,10),F(55,100),F(62,100),F(85,100)]   # P L A N
AC=[F(44,100),F(77,100)]                      # H L
UI=[F(62,100),F(85,100)]                      # R N
def PR(p,s): return [F(5,10) if s else F(27,100), F(68,100) if s else F(62,100), F(85,100)][p]  # H L N
CIA=[F(0),F(22,100),F(56,100)]                # N L H
REQ=[F(1,2),F(1),F(15,10)]                    # L M H
def inner(av,ac,pr,ui,s,c,i,a,cr,ir,ar):
    ex=F(822,100)*AV[av]*AC[ac]*PR(pr,s)*UI[ui]
    miss=min(1-(1-REQ[cr]*CIA[c])*(1-REQ[ir]*CIA[i])*(1-REQ[ar]*CIA[a]), F(915,1000))
    if s==0: imp=F(642,100)*miss
    elif ver=="31": imp=F(752,100)*(miss-F(29,1000))-F(325,100)*(miss*F(9731,10000)-F(2,100))**13
    else: imp=F(752,100)*(miss-F(29,1000))-F(325,100)*(miss-F(2,100))**15
    if imp<=0: return F(0)
    return ru(min(imp+ex,10)) if s==0 else ru(min(F(108,100)*(imp+ex),10))
dims=[4,2,3,2,2,3,3,3,3,3,3]; names="AV AC PR UI S C I A CR IR AR".split()
tab={t:inner(*t) for t in itertools.product(*[range(d) for d in dims])}
bad={}
for t,v in tab.items():
    for k in range(11):
        if t[k]+1<dims[k]:
            t2=t[:k]+(t[k]+1,)+t[k+1:]
            if tab[t2]<v: bad.setdefault(names[k],[]).append((t,float(v),float(tab[t2])))
print(ver,"inner(env) violations per metric:",{k:len(v) for k,v in bad.items()})
for k,v in bad.items(): print("  e.g.",k,v[0])
# base score = inner with reqs M (index1)
bb={}
for t,v in tab.items():
    if t[8:]!=(1,1,1): continue
    for k in range(8):
        if t[k]+1<dims[k]:
            t2=t[:k]+(t[k]+1,)+t[k+1:]
            if tab[t2]<v: bb.setdefault(names[k],[]).append((t,float(v),float(tab[t2])))
print(ver,"base violations per metric:",{k:len(v) for k,v in bb.items()})
for k,v in bb.items(): print("  e.g.",k,v[0])
