import re, glob, os, subprocess
mc = subprocess.check_output(["go","env","GOMODCACHE"]).decode().strip()
src = open(glob.glob(mc+"/github.com/hdonnay/claircore/toolkit@*/types/cvss/cvss_v4_score.go")[0]).read()
clair = {m.group(1): float(m.group(2)) for m in re.finditer(r'makeMacrovector\("(\d{6})"\):\s*([0-9.]+)', src)}
print("claircore entries", len(clair))
# parse repo lookup.go nested switch
stack=[]  # list of [eqname, current case]
repo={}
for line in open("/repo/40/lookup.go"):
    s=line.strip()
    m=re.match(r'switch (eq\d) \{', s)
    if m: stack.append([m.group(1), None]); continue
    m=re.match(r'case (\d):', s)
    if m: stack[-1][1]=int(m.group(1)); continue
    m=re.match(r'return ([0-9.]+)', s)
    if m:
        d={k:v for k,v in stack}
        key="".join(str(d["eq%d"%i]) for i in range(1,7))
        assert key not in repo, key
        repo[key]=float(m.group(1)); continue
    if s=="}" and stack: stack.pop()
print("repo entries", len(repo))
print("keys equal", set(repo)==set(clair))
diff=[(k,repo[k],clair[k]) for k in repo if k in clair and repo[k]!=clair[k]]
print("value diffs", diff)
# monotone along each EQ?
bad=[]
for k,v in repo.items():
    for i in range(6):
        k2=k[:i]+str(int(k[i])+1)+k[i+1:]
        if k2 in repo and repo[k2]>v: bad.append((k,v,k2,repo[k2]))
print("non-monotone neighbours", bad[:10], len(bad))
