# Probe: BMC-style encoding of gocvss40.ParseVector (hand-translated, mirrors what an SSA encoder would emit)
# vs an independent deterministic recogniser of the v4 grammar. Symbolic input bytes, symbolic length <= 8+LMAX.
import sys, time
from z3 import *
LMAX = int(sys.argv[1]); W=16
ORDER = [
 ("AV","NALP"),("AC","HL"),("AT","NP"),("PR","HLN"),("UI","NPA"),("VC","HLN"),("VI","HLN"),("VA","HLN"),("SC","HLN"),("SI","HLN"),("SA","HLN"),
 ("E","XAPU"),
 ("CR","XHML"),("IR","XHML"),("AR","XHML"),("MAV","XNALP"),("MAC","XHL"),("MAT","XNP"),("MPR","XHLN"),("MUI","XNPA"),("MVC","XHLN"),("MVI","XHLN"),("MVA","XHLN"),("MSC","XHLN"),("MSI","XHLNS"),("MSA","XHLNS"),
 ("S","XNP"),("AU","XNY"),("R","XAUI"),("V","XDC"),("RE","XLMH"),("U",["X","Clear","Green","Amber","Red"]),
]
NM=len(ORDER); NB=11
vec = Array('vec', BitVecSort(W), BitVecSort(8))   # bytes after the 8-byte header
L = BitVec('L', W)                                   # len(vector) after header
def bv(x): return BitVecVal(x, W)
def ch(c): return BitVecVal(ord(c), 8)
def streq(off, ln, const):
    return And(ln == len(const), *[Select(vec, off+bv(k)) == ch(c) for k,c in enumerate(const)])

# ---------------- code model ----------------
ret = BoolVal(False); acc_err = BoolVal(False)   # ret: returned with error
cut = bv(0)
g = [BoolVal(k==0) for k in range(NM+1)]         # one-hot position in flattened order (NM = past the end), small-set representation
for i in range(1, LMAX+1):
    inloop = And(ULE(bv(i), L), Not(ret))
    body = And(inloop, Or(bv(i) == L, Select(vec, bv(i)) == ch('/')))
    # pt = vector[cut:i]
    haspre = Select(vec, cut) == ch('/')
    off = cut + 1; plen = bv(i) - cut - 1
    # strings.Cut(pt, ":") : first colon
    nocolon_before = BoolVal(True); j = plen; found = BoolVal(False)
    # chain from the back to build "first index"
    firsts = []
    for k in range(0, i):       # plen <= i-1
        isc = And(ULT(bv(k), plen), Select(vec, off+bv(k)) == ch(':'))
        firsts.append(And(nocolon_before, isc))
        nocolon_before = And(nocolon_before, Not(isc))
    jv = plen
    for k in range(len(firsts)-1, -1, -1):
        jv = If(firsts[k], bv(k), jv)
    found = Not(nocolon_before)
    alen = jv
    voff = off + jv + 1
    vlen = If(found, plen - jv - 1, bv(0))
    # abv == name_k (shared comparisons)
    eqn = [streq(off, alen, n) for n,_ in ORDER]
    # order walk: from one-hot g, find match
    # faithful semantics: if in base group (g<NB): must equal name[g] else error. else skip forward to first match >= g, error if none.
    err_order = Or(*[And(g[k], Not(eqn[k])) for k in range(NB)])
    newg = [BoolVal(False)]*(NM+1)
    matched = [BoolVal(False)]*NM
    # base group
    for k in range(NB):
        matched[k] = And(g[k], eqn[k])
    # optional groups: g[k0] for k0>=NB: first k>=k0 with eqn[k]
    for k in range(NB, NM):
        # matched at k from start k0<=k (k0>=NB) with no eqn in [k0,k)
        terms=[]
        for k0 in range(NB, k+1):
            terms.append(And(g[k0], eqn[k], *[Not(eqn[m]) for m in range(k0,k)]))
        matched[k] = Or(*terms)
    anymatch = Or(*matched)
    err_order = Or(err_order, And(Or(*[g[k] for k in range(NB, NM+1)]), Not(anymatch)))
    # Set(abv, v): validate value
    okval = []
    for k,(n,vals) in enumerate(ORDER):
        okval.append(Or(*[streq(voff, vlen, v) for v in vals]))
    err_val = Or(*[And(matched[k], Not(okval[k])) for k in range(NM)])
    err = Or(Not(haspre), err_order, err_val)
    ret = Or(ret, And(body, err))
    upd = And(body, Not(err))
    g2 = [ If(upd, (matched[k-1] if k>=1 else BoolVal(False)), g[k]) for k in range(NM+1)]
    g = g2
    cut = If(body, bv(i), cut)
too_short = Or(*[g[k] for k in range(NB)])     # slci == 0
code_accept = And(Not(ret), Not(too_short))

# ---------------- reference recogniser (deterministic, position based) ----------------
p = bv(0); ok = BoolVal(True)
for k,(n,vals) in enumerate(ORDER):
    pre = "/"+n+":"
    haspre = And(ULE(p + len(pre), L), *[Select(vec, p+bv(t)) == ch(c) for t,c in enumerate(pre)])
    q = p + len(pre)
    vm = []; np_ = p
    anyv = BoolVal(False); nq = q
    for v in vals:
        e = q + len(v)
        m = And(ULE(e, L), *[Select(vec, q+bv(t)) == ch(c) for t,c in enumerate(v)], Or(e == L, Select(vec, e) == ch('/')))
        nq = If(m, e, nq); anyv = Or(anyv, m)
    if k < NB:
        ok = And(ok, haspre, anyv); p = nq
    else:
        ok = And(ok, Implies(haspre, anyv)); p = If(haspre, nq, p)
ref_accept = And(ok, p == L)

bound = ULE(L, bv(LMAX))
for name, q in [("code&!ref", And(code_accept, Not(ref_accept))), ("ref&!code", And(ref_accept, Not(code_accept))), ("witness code_accept", code_accept)]:
    s = Solver(); s.add(bound, q)
    t=time.time(); r = s.check(); dt=time.time()-t
    print(name, r, "%.1fs"%dt, flush=True)
    if r == sat:
        m = s.model(); n = m.eval(L).as_long()
        print("   ", "".join(chr(m.eval(Select(vec,bv(t))).as_long()) for t in range(n)))
