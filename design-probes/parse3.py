# Probe: v3.1 ParseVector (any order, kvm flags) as propositional formula vs element-aligned reference.
import sys, time
from z3 import *
LMAX = int(sys.argv[1])      # length after the 9-byte header
METRICS = [("AV","NALP"),("AC","LH"),("PR","NLH"),("UI","NR"),("S","UC"),("C","HLN"),("I","HLN"),("A","HLN"),
 ("E","XHFPU"),("RL","XUWTO"),("RC","XCRU"),("CR","XHML"),("IR","XHML"),("AR","XHML"),("MAV","XNALP"),("MAC","XLH"),("MPR","XNLH"),("MUI","XNR"),("MS","XUC"),("MC","XHLN"),("MI","XHLN"),("MA","XHLN")]
NM=len(METRICS); NB=8
b = [BitVec("b%d"%i, 8) for i in range(LMAX+1)]
Lh = [Bool("L%d"%i) for i in range(LMAX+1)]
oneL = And(Or(*Lh), *[Or(Not(Lh[i]),Not(Lh[j])) for i in range(LMAX+1) for j in range(i)])
def ch(c): return BitVecVal(ord(c),8)
def le(i): return Or(*Lh[i:])
def match(start, s, end):
    if start+len(s) > end: return BoolVal(False)
    return And(*[b[start+k]==ch(c) for k,c in enumerate(s)])
isS = [b[i]==ch('/') for i in range(LMAX+1)]
C = [b[i]==ch(':') for i in range(LMAX+1)]
fired = [And(le(i), Or(Lh[i], isS[i])) for i in range(LMAX+1)]
# ---- code model ----
ret = BoolVal(False); seen=[BoolVal(False)]*NM
for i in range(0, LMAX+1):
    body = And(fired[i], Not(ret))
    # start candidates: st=0 if no fired before i, else last fired +1
    stc = []
    for st in range(0, i+1):
        nolater = And(*[Not(fired[t]) for t in range(st, i)])
        stc.append(nolater if st==0 else And(fired[st-1], nolater))
    abv_t=[[] for _ in range(NM)]; okv_t=[[] for _ in range(NM)]
    for st in range(0, i+1):
        plen = i-st
        for m,(n,vals) in enumerate(METRICS):
            ln=len(n)
            if plen < ln: continue
            mt = match(st, n, i)
            if plen == ln: abv_t[m].append(And(stc[st], mt))
            else:
                am = And(stc[st], mt, C[st+ln]); abv_t[m].append(am)
                vlen=plen-ln-1
                vs=[match(st+ln+1, v, i) for v in vals if len(v)==vlen]
                if vs: okv_t[m].append(And(am, Or(*vs)))
    abv=[Or(*t) if t else BoolVal(False) for t in abv_t]; okv=[Or(*t) if t else BoolVal(False) for t in okv_t]
    known = Or(*abv)
    dup = Or(*[And(abv[m], seen[m]) for m in range(NM)])
    badv = Or(*[And(abv[m], Not(okv[m])) for m in range(NM)])
    err = Or(Not(known), dup, badv)
    upd = And(body, Not(err))
    ret = Or(ret, And(body, err))
    seen = [Or(seen[m], And(upd, abv[m])) for m in range(NM)]
code_accept = And(Not(ret), *seen[:NB])
# ---- reference (aligned, independent formulation) ----
ELEMS=[[n+":"+v for v in vals] for n,vals in METRICS]
rok = BoolVal(True); rseen=[BoolVal(False)]*NM
for i in range(0, LMAX+1):
    em=[]
    for m in range(NM):
        alts=[]
        for e in ELEMS[m]:
            st=i-len(e)
            if st<0: continue
            startok = BoolVal(True) if st==0 else fired[st-1]
            alts.append(And(startok, match(st, e, i)))
        em.append(Or(*alts) if alts else BoolVal(False))
    step_ok = Or(*[And(em[m], Not(rseen[m])) for m in range(NM)])
    act = And(fired[i], rok)
    rok = And(rok, Implies(fired[i], step_ok))
    rseen = [Or(rseen[m], And(act, step_ok, em[m])) for m in range(NM)]
ref_accept = And(rok, *rseen[:NB])
print("built", flush=True)
for name,q in [("code&!ref", And(code_accept, Not(ref_accept))), ("ref&!code", And(ref_accept, Not(code_accept))), ("witness", And(code_accept, Lh[LMAX]))]:
    s=Solver(); s.add(oneL,q); t=time.time(); r=s.check(); print(name, r, "%.1fs"%(time.time()-t), flush=True)
    if r==sat:
        m=s.model(); n=[i for i in range(LMAX+1) if is_true(m.eval(Lh[i]))][0]
        print("   ", repr("".join(chr(m.eval(b[t],model_completion=True).as_long()) for t in range(n))))
