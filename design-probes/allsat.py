# Probe: AllSAT over the int->float frontier of v3.1 EnvironmentalScore (inner stage), raw 6-byte object symbolic.
import time, itertools, sys
from fractions import Fraction as F
from z3 import *
LIMIT = int(sys.argv[1]) if len(sys.argv)>1 else 3000
u = [BitVec("u%d"%i, 8) for i in range(6)]
def fld(b, mask, sh): return LShR(u[b] & mask, sh)
av = fld(0,0xC0,6); ac = fld(0,0x20,5); pr = fld(0,0x18,3); ui = fld(0,0x04,2); s_ = fld(0,0x02,1)
c_ = ((u[0]&1)<<1) | LShR(u[1]&0x80,7); i_ = fld(1,0x60,5); a_ = fld(1,0x18,3)
e_ = u[1]&7; rl = fld(2,0xE0,5); rc = fld(2,0x18,3); cr = fld(2,0x06,1)
ir = ((u[2]&1)<<1)|LShR(u[3]&0x80,7); ar = fld(3,0x60,5); mavr = fld(3,0x1C,2); macr = u[3]&3
mprr = fld(4,0xC0,6); muir = fld(4,0x30,4); msr = fld(4,0x0C,2); mcr = u[4]&3; mir = fld(5,0xC0,6); mar = fld(5,0x30,4)
inv = And(ULE(pr,2), ULE(c_,2), ULE(i_,2), ULE(a_,2), ULE(e_,4), ULE(rl,4), ULE(mavr,4), ULE(macr,2), ULE(muir,2), ULE(msr,2), (u[5]&0x0F)==0)
def mod(b, m): return If(m != 0, m-1, b)
Fr = [mod(av,mavr), mod(ac,macr), mod(pr,mprr), mod(ui,muir), mod(s_,msr), mod(c_,mcr), mod(i_,mir), mod(a_,mar), cr, ir, ar]
# T' as python over concrete ints -> FP term folded by z3's rewriter
RNE_=RNE(); F64=Float64()
def c(x): return FPVal(x,F64)
def mul(*xs):
    r=xs[0]
    for x in xs[1:]: r=fpMul(RNE_,r,x)
    return r
def roundup_fp(x):
    bx = fpRoundToIntegral(RNE_, fpMul(RNE_, x, c(100000.0)))
    ibx = fpToSBV(RTZ(), bx, BitVecSort(64))
    return If(SRem(ibx, BitVecVal(10000,64)) == 0, fpDiv(RNE_, bx, c(100000.0)),
              fpDiv(RNE_, fpAdd(RNE_, fpRoundToIntegral(RTN(), fpDiv(RNE_, bx, c(10000.0))), c(1.0)), c(10.0)))
def pow13(f):
    f2=fpMul(RNE_,f,f); f4=fpMul(RNE_,f2,f2); f12=fpMul(RNE_,fpMul(RNE_,f4,f4),f4); return fpMul(RNE_,f,f12)
AVw=[0.85,0.62,0.55,0.2]; ACw=[0.77,0.44]; UIw=[0.85,0.62]; CIAw=[0.56,0.22,0.0]; REQw=[1.0,1.5,1.0,0.5]
def prw(p,s): return [0.85, 0.68 if s else 0.62, 0.5 if s else 0.27][p]
def Tprime(mav,mac,mpr,mui,ms,mc,mi,ma,cr,ir,ar):
    one=c(1.0)
    t = fpSub(RNE_, one, mul(fpSub(RNE_,one,fpMul(RNE_,c(REQw[cr]),c(CIAw[mc]))), fpSub(RNE_,one,fpMul(RNE_,c(REQw[ir]),c(CIAw[mi]))), fpSub(RNE_,one,fpMul(RNE_,c(REQw[ar]),c(CIAw[ma])))))
    miss = If(fpLT(t, c(0.915)), t, c(0.915))
    if ms==0: imp = fpMul(RNE_, c(6.42), miss)
    else: imp = fpSub(RNE_, fpMul(RNE_, c(7.52), fpSub(RNE_, miss, c(0.029))), fpMul(RNE_, c(3.25), pow13(fpSub(RNE_, fpMul(RNE_, miss, c(0.9731)), c(0.02)))))
    ex = mul(c(8.22), c(AVw[mav]), c(ACw[mac]), c(prw(mpr,ms)), c(UIw[mui]))
    tot = fpAdd(RNE_, imp, ex) if ms==0 else fpMul(RNE_, c(1.08), fpAdd(RNE_, imp, ex))
    m10 = If(fpLT(tot, c(10.0)), tot, c(10.0))
    return If(fpLEQ(imp, c(0.0)), c(0.0), roundup_fp(m10))
# exact oracle keyed by effective class (spec-level rule), as UF with ground facts
def ru(x):
    i = round(x*100000); return F(i,100000) if i%10000==0 else F(i//10000+1,10)
fAV=[F(85,100),F(62,100),F(55,100),F(2,10)]; fAC=[F(77,100),F(44,100)]; fUI=[F(85,100),F(62,100)]; fCIA=[F(56,100),F(22,100),F(0)]; fREQ=[F(1),F(15,10),F(1),F(1,2)]
def oracle(mav,mac,mpr,mui,ms,mc,mi,ma,cr,ir,ar):
    p=[F(85,100), F(68,100) if ms else F(62,100), F(5,10) if ms else F(27,100)][mpr]
    ex=F(822,100)*fAV[mav]*fAC[mac]*p*fUI[mui]
    miss=min(1-(1-fREQ[cr]*fCIA[mc])*(1-fREQ[ir]*fCIA[mi])*(1-fREQ[ar]*fCIA[ma]), F(915,1000))
    imp = F(642,100)*miss if ms==0 else F(752,100)*(miss-F(29,1000))-F(325,100)*(miss*F(9731,10000)-F(2,100))**13
    if imp<=0: return 0
    return int(10*(ru(min(imp+ex,10)) if ms==0 else ru(min(F(108,100)*(imp+ex),10))))
t0=time.time()
orc = Function("orc", BitVecSort(32), BitVecSort(8))
def keyint(t):
    k=0
    for x in t: k=k*8+x
    return k
facts=[]
dims=[4,2,3,2,2,3,3,3,4,4,4]
for t in itertools.product(*[range(d) for d in dims]):
    facts.append(orc(BitVecVal(keyint(t),32)) == oracle(*t))
print("oracle facts", len(facts), "%.1fs"%(time.time()-t0), flush=True)
# spec-level key of a raw object: effective value = modified if defined else base (here via the same field decode; in the real harness via Get strings)
eff = [If(mavr!=0, mavr-1, av), If(macr!=0, macr-1, ac), If(mprr!=0, mprr-1, pr), If(muir!=0, muir-1, ui), If(msr!=0, msr-1, s_), If(mcr!=0, mcr-1, c_), If(mir!=0, mir-1, i_), If(mar!=0, mar-1, a_), cr, ir, ar]
key = BitVecVal(0,32)
for x in eff: key = key*8 + ZeroExt(24, x)
enum = Solver(); enum.add(inv)
chk = Solver(); chk.add(inv); chk.add(*facts)
n=0; tfold=0; tenum=0; tchk=0
while n < LIMIT:
    t=time.time(); r=enum.check(); tenum+=time.time()-t
    if r!=sat: print("enumeration complete:", r); break
    m=enum.model(); tup=[m.eval(f, model_completion=True).as_long() for f in Fr]
    enum.add(Or(*[f!=v for f,v in zip(Fr,tup)]))
    t=time.time(); sv = simplify(Tprime(*tup)); tfold+=time.time()-t
    k10 = simplify(fpToSBV(RTZ(), fpRoundToIntegral(RNE_, fpMul(RNE_, sv, c(10.0))), BitVecSort(8)))
    assert is_true(simplify(fpEQ(sv, fpDiv(RNE_, fpSignedToFP(RNE_, k10, F64), c(10.0))))), (tup, sv)
    t=time.time(); chk.push(); chk.add(*[f==v for f,v in zip(Fr,tup)]); chk.add(orc(key) != k10); r2=chk.check(); chk.pop(); tchk+=time.time()-t
    assert r2==unsat, (tup, r2, chk.model() if r2==sat else None)
    n+=1
    if n%500==0: print(n, "enum %.1f fold %.1f chk %.1f"%(tenum,tfold,tchk), flush=True)
print("cubes", n, "enum %.1fs fold %.1fs check %.1fs"%(tenum,tfold,tchk))
