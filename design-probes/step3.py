# Inductive (lockstep) step for v3 parser: arbitrary common pre-state at boundary i, one iteration of code and reference.
import sys, time
from z3 import *
LMAX=int(sys.argv[1]); M=int(sys.argv[2])
METRICS = [("AV","NALP"),("AC","LH"),("PR","NLH"),("UI","NR"),("S","UC"),("C","HLN"),("I","HLN"),("A","HLN"),
 ("E","XHFPU"),("RL","XUWTO"),("RC","XCRU"),("CR","XHML"),("IR","XHML"),("AR","XHML"),("MAV","XNALP"),("MAC","XLH"),("MPR","XNLH"),("MUI","XNR"),("MS","XUC"),("MC","XHLN"),("MI","XHLN"),("MA","XHLN")]
NM=len(METRICS)
b=[BitVec("b%d"%i,8) for i in range(LMAX+1)]
Lh=[Bool("L%d"%i) for i in range(LMAX+1)]
oneL=And(Or(*Lh), *[Or(Not(Lh[i]),Not(Lh[j])) for i in range(LMAX+1) for j in range(i)])
def ch(c): return BitVecVal(ord(c),8)
def le(i): return Or(*Lh[i:])
def match(st,s,end):
    if st+len(s)>end: return BoolVal(False)
    return And(*[b[st+k]==ch(c) for k,c in enumerate(s)])
isS=[b[i]==ch('/') for i in range(LMAX+1)]; C=[b[i]==ch(':') for i in range(LMAX+1)]
fired=[And(le(i), Or(Lh[i], isS[i])) for i in range(LMAX+1)]
def stepC(i, ret, seen):
    body=And(fired[i], Not(ret)); stc={}
    for st in range(max(0,i-M), i+1):
        nolater=And(*[Not(fired[t]) for t in range(st,i)])
        stc[st]= nolater if st==0 else And(fired[st-1], nolater)
    abv_t=[[] for _ in range(NM)]; okv_t=[[] for _ in range(NM)]
    for st in stc:
        plen=i-st
        for m,(n,vals) in enumerate(METRICS):
            ln=len(n)
            if plen<ln: continue
            mt=match(st,n,i)
            if plen==ln: abv_t[m].append(And(stc[st],mt))
            else:
                am=And(stc[st],mt,C[st+ln]); abv_t[m].append(am)
                vs=[match(st+ln+1,v,i) for v in vals if len(v)==plen-ln-1]
                if vs: okv_t[m].append(And(am,Or(*vs)))
    abv=[Or(*t) if t else BoolVal(False) for t in abv_t]; okv=[Or(*t) if t else BoolVal(False) for t in okv_t]
    err=Or(Not(Or(*abv)), Or(*[And(abv[m],seen[m]) for m in range(NM)]), Or(*[And(abv[m],Not(okv[m])) for m in range(NM)]))
    upd=And(body,Not(err))
    return Or(ret,And(body,err)), [Or(seen[m],And(upd,abv[m])) for m in range(NM)]
def stepR(i, rok, rseen):
    em=[]
    for m,(n,vals) in enumerate(METRICS):
        alts=[]
        for v in vals:
            e=n+":"+v; st=i-len(e)
            if st<0: continue
            alts.append(And(BoolVal(True) if st==0 else fired[st-1], match(st,e,i)))
        em.append(Or(*alts) if alts else BoolVal(False))
    step_ok=Or(*[And(em[m],Not(rseen[m])) for m in range(NM)])
    act=And(fired[i],rok)
    return And(rok, Implies(fired[i], step_ok)), [Or(rseen[m],And(act,step_ok,em[m])) for m in range(NM)]
elem_bound=[Implies(le(i), Or(*[isS[t] for t in range(i-M,i+1)])) for i in range(M+1,LMAX+1)]
tot=time.time(); worst=0
for i in range(0,LMAX+1):
    ret0=Bool("ret0"); seen0=[Bool("s%d"%m) for m in range(NM)]
    r1,s1=stepC(i,ret0,seen0); k2,s2=stepR(i,Not(ret0),seen0)
    q=Not(And(r1==Not(k2), *[a==c for a,c in zip(s1,s2)]))
    s=Solver(); s.add(oneL,*elem_bound); s.add(q); t=time.time(); r=s.check(); dt=time.time()-t; worst=max(worst,dt)
    if r!=unsat:
        print("step",i,r); break
print("LMAX",LMAX,"M",M,"all %d steps unsat: total %.1fs worst %.2fs"%(LMAX+1,time.time()-tot,worst))
