# Probe: v4 Vector() on a symbolic object -> buffer built by appends at symbolic offsets (store chain),
# checked by a position-based reference walker. Measures select-over-store tractability.
import sys, time
from z3 import *
W=16
ORDER = [
 ("AV","NALP"),("AC","HL"),("AT","NP"),("PR","HLN"),("UI","NPA"),("VC","HLN"),("VI","HLN"),("VA","HLN"),("SC","HLN"),("SI","HLN"),("SA","HLN"),
 ("E","XAPU"),
 ("CR","XHML"),("IR","XHML"),("AR","XHML"),("MAV","XNALP"),("MAC","XHL"),("MAT","XNP"),("MPR","XHLN"),("MUI","XNPA"),("MVC","XHLN"),("MVI","XHLN"),("MVA","XHLN"),("MSC","XHLN"),("MSI","XHLNS"),("MSA","XHLNS"),
 ("S","XNP"),("AU","XNY"),("R","XAUI"),("V","XDC"),("RE","XLMH"),("U",["X","Clear","Green","Amber","Red"]),
]
NB=11
def bv(x): return BitVecVal(x, W)
def ch(c): return BitVecVal(ord(c), 8)
codes = [BitVec("c_"+n, 3) for n,_ in ORDER]
dom = And(*[ULT(c, len(v)) for c,(n,v) in zip(codes,ORDER)])
buf = K(BitVecSort(W), BitVecVal(0,8)); ln = bv(0)
def app_const(buf, ln, s, g=BoolVal(True)):
    for k,c in enumerate(s):
        buf = If(g, Store(buf, ln+bv(k), ch(c)), buf) if not is_true(g) else Store(buf, ln+bv(k), ch(c))
    return buf, If(g, ln+bv(len(s)), ln) if not is_true(g) else ln+bv(len(s))
def app_val(buf, ln, code, vals, g):
    mx = max(len(v) for v in vals)
    vlen = bv(0)
    for i,v in enumerate(vals): vlen = If(code==i, bv(len(v)), vlen)
    for k in range(mx):
        b = ch('?')
        for i,v in enumerate(vals):
            if k < len(v): b = If(code==i, ch(v[k]), b)
        gk = And(g, ULT(bv(k), vlen))
        buf = If(gk, Store(buf, ln+bv(k), b), buf)
    return buf, If(g, ln+vlen, ln)
buf, ln = app_const(buf, ln, "CVSS:4.0")
cap = bv(8+55)
for k,(n,vals) in enumerate(ORDER):
    g = BoolVal(True) if k < NB else codes[k] != 0
    buf, ln = app_const(buf, ln, "/"+n+":", g)
    buf, ln = app_val(buf, ln, codes[k], vals, g)
    if k >= NB:
        if n=="U":
            cap = cap + If(codes[k]==0, bv(0), If(codes[k]==4, bv(6), bv(8)))
        else:
            cap = cap + If(codes[k]!=0, bv(len(n)+3), bv(0))
# reference walker over buf[0:ln]
def at(p,k): return Select(buf, p+bv(k))
ok = And(UGE(ln, bv(8)), *[at(bv(0),k)==ch(c) for k,c in enumerate("CVSS:4.0")])
p = bv(8)
for k,(n,vals) in enumerate(ORDER):
    pre="/"+n+":"
    present = BoolVal(True) if k<NB else codes[k]!=0
    m = And(ULE(p+len(pre), ln), *[at(p,t)==ch(c) for t,c in enumerate(pre)])
    q = p+len(pre)
    vm = BoolVal(False); nq=q
    for i,v in enumerate(vals):
        mi = And(codes[k]==i, ULE(q+len(v), ln), *[at(q,t)==ch(c) for t,c in enumerate(v)])
        vm = Or(vm, mi); nq = If(codes[k]==i, q+len(v), nq)
    ok = And(ok, Implies(present, And(m, vm)))
    p = If(present, nq, p)
good = And(ok, p==ln, ln==cap)
s = Solver(); s.add(dom, Not(good))
t=time.time(); r=s.check(); print("Vector()==ref & len==cap :", r, "%.1fs"%(time.time()-t), flush=True)
if r==sat: print(s.model())
s = Solver(); s.add(dom, good, codes[31]==3, codes[15]==2)
t=time.time(); r=s.check(); print("witness:", r, "%.1fs"%(time.time()-t))
if r==sat:
    m=s.model(); n=m.eval(ln).as_long(); print("".join(chr(m.eval(Select(buf,bv(t))).as_long()) for t in range(n)))
