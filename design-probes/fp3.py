import time, itertools, sys
exec(open("fp1.py").read().split("s_ = Solver()")[0])
t=time.time(); n=0
goal = Not(fpEQ(base,kfp))
for tup in itertools.islice(itertools.product(range(4),range(2),range(3),range(2),range(2),range(3),range(3),range(3)), 0, 2592, 7):
    g = simplify(substitute(goal, *[(v,BitVecVal(x,8)) for v,x in zip([av,ac,pr,ui,s,cc,ii,aa],tup)]))
    assert is_false(g), (tup,g)
    n+=1
print("subst+simplify per-cube", (time.time()-t)/n, "n", n)
lines=["(set-logic ALL)"]
n=0
for tup in itertools.islice(itertools.product(range(4),range(2),range(3),range(2),range(2),range(3),range(3),range(3)), 0, 2592, 7):
    g = substitute(goal, *[(v,BitVecVal(x,8)) for v,x in zip([av,ac,pr,ui,s,cc,ii,aa],tup)])
    lines += ["(push 1)", "(assert %s)"%g.sexpr(), "(check-sat)", "(pop 1)"]
    n+=1
open("fp3.smt2","w").write("\n".join(lines)+"\n")
print("queries", n)
