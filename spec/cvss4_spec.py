"""Exact evaluation of the CVSS v4.0 scoring algorithm (specification section
8.2 / the FIRST reference calculator's algorithm), over the rationals.

Data (lookup scores, highest-severity vectors, depths) come from v4_data.json,
extracted from an independent transcription (see extract_v4.py); the algorithm
on top is written here from the specification text."""
import json
import math
import os
from fractions import Fraction as Fr
from functools import lru_cache

HERE = os.path.dirname(os.path.abspath(__file__))
DATA = json.load(open(os.path.join(HERE, 'v4_data.json')))
LOOKUP = {k: Fr(v) for k, v in DATA['lookup'].items()}
DEPTH1 = DATA['depth_plus_one']

# severity levels of the metric values, most severe first (distance = index difference)
LEVELS = {
    'AV': ['N', 'A', 'L', 'P'], 'PR': ['N', 'L', 'H'], 'UI': ['N', 'P', 'A'],
    'AC': ['L', 'H'], 'AT': ['N', 'P'],
    'VC': ['H', 'L', 'N'], 'VI': ['H', 'L', 'N'], 'VA': ['H', 'L', 'N'],
    'SC': ['H', 'L', 'N'], 'SI': ['S', 'H', 'L', 'N'], 'SA': ['S', 'H', 'L', 'N'],
    'CR': ['H', 'M', 'L'], 'IR': ['H', 'M', 'L'], 'AR': ['H', 'M', 'L'],
    'E': ['A', 'P', 'U'],
}
EQ_METRICS = {
    'eq1': ['AV', 'PR', 'UI'], 'eq2': ['AC', 'AT'], 'eq3eq6': ['VC', 'VI', 'VA', 'CR', 'IR', 'AR'], 'eq4': ['SC', 'SI', 'SA'], 'eq5': ['E'],
}


def frag(s):
    return dict(x.split(':') for x in s.split('/'))


MAXFRAG = {k: [[frag(f) for f in lvl] for lvl in v] for k, v in DATA['maxfrag'].items()}


def macrovector(v):
    """v: effective values (E X->A, CR/IR/AR X->H already applied)"""
    av, pr, ui = v['AV'], v['PR'], v['UI']
    if av == 'N' and pr == 'N' and ui == 'N':
        eq1 = 0
    elif (av == 'N' or pr == 'N' or ui == 'N') and av != 'P':
        eq1 = 1
    else:
        eq1 = 2
    eq2 = 0 if (v['AC'] == 'L' and v['AT'] == 'N') else 1
    vc, vi, va = v['VC'], v['VI'], v['VA']
    if vc == 'H' and vi == 'H':
        eq3 = 0
    elif vc == 'H' or vi == 'H' or va == 'H':
        eq3 = 1
    else:
        eq3 = 2
    if v['SI'] == 'S' or v['SA'] == 'S':
        eq4 = 0
    elif v['SC'] == 'H' or v['SI'] == 'H' or v['SA'] == 'H':
        eq4 = 1
    else:
        eq4 = 2
    eq5 = {'A': 0, 'P': 1, 'U': 2}[v['E']]
    if (v['CR'] == 'H' and vc == 'H') or (v['IR'] == 'H' and vi == 'H') or (v['AR'] == 'H' and va == 'H'):
        eq6 = 0
    else:
        eq6 = 1
    return eq1, eq2, eq3, eq4, eq5, eq6


def distances(v, mv):
    """severity distance sums (eq1, eq2, eq3eq6, eq4) to the first highest-severity
    vector of the MacroVector that is at least as severe in every metric"""
    eq1, eq2, eq3, eq4, eq5, eq6 = mv
    out = []
    for name, lvl in (('eq1', eq1), ('eq2', eq2), ('eq3eq6', eq3 * 2 + eq6), ('eq4', eq4)):
        got = None
        for f in MAXFRAG[name][lvl]:
            ds = [LEVELS[m].index(v[m]) - LEVELS[m].index(f[m]) for m in EQ_METRICS[name]]
            if all(d >= 0 for d in ds):
                got = sum(ds)
                break
        if got is None:
            raise ValueError('no highest-severity vector dominates %r in %s level %d' % (v, name, lvl))
        out.append(got)
    return out


def mvkey(*eqs):
    return ''.join(str(e) for e in eqs)


def final_score(mv, dists, noimpact):
    """exact score x 10 (integer) from the MacroVector levels and distance sums"""
    if noimpact:
        return 0
    eq1, eq2, eq3, eq4, eq5, eq6 = mv
    value = LOOKUP[mvkey(*mv)]
    lows = []
    # next lower MacroVector per EQ (None when there is none)

    def lk(*e):
        return LOOKUP.get(mvkey(*e))
    n1 = lk(eq1 + 1, eq2, eq3, eq4, eq5, eq6)
    n2 = lk(eq1, eq2 + 1, eq3, eq4, eq5, eq6)
    n4 = lk(eq1, eq2, eq3, eq4 + 1, eq5, eq6)
    n5 = lk(eq1, eq2, eq3, eq4, eq5 + 1, eq6)
    if eq3 == 1 and eq6 == 1:
        n36 = lk(eq1, eq2, eq3 + 1, eq4, eq5, eq6)
    elif eq3 == 0 and eq6 == 1:
        n36 = lk(eq1, eq2, eq3 + 1, eq4, eq5, eq6)
    elif eq3 == 1 and eq6 == 0:
        n36 = lk(eq1, eq2, eq3, eq4, eq5, eq6 + 1)
    elif eq3 == 0 and eq6 == 0:
        left = lk(eq1, eq2, eq3, eq4, eq5, eq6 + 1)
        right = lk(eq1, eq2, eq3 + 1, eq4, eq5, eq6)
        cands = [x for x in (left, right) if x is not None]
        n36 = max(cands) if cands else None
    else:
        n36 = lk(eq1, eq2, eq3 + 1, eq4, eq5, eq6 + 1)
    d1, d2, d36, d4 = dists
    depths = (DEPTH1['eq1'][eq1], DEPTH1['eq2'][eq2], DEPTH1['eq3eq6'][eq3 * 2 + eq6], DEPTH1['eq4'][eq4], DEPTH1['eq5'][eq5])
    total = Fr(0)
    n = 0
    for nxt, d, dep in ((n1, d1, depths[0]), (n2, d2, depths[1]), (n36, d36, depths[2]), (n4, d4, depths[3]), (n5, 0, depths[4])):
        if nxt is None:
            continue
        n += 1
        total += (value - nxt) * Fr(d, dep)
    mean = total / n if n else Fr(0)
    s = value - mean
    s = max(Fr(0), min(Fr(10), s))
    return math.floor(s * 10 + Fr(1, 2))   # round half up


def score(v):
    """exact score x 10 of a full set of effective values"""
    if all(v[m] == 'N' for m in ('VC', 'VI', 'VA', 'SC', 'SI', 'SA')):
        return 0
    mv = macrovector(v)
    return final_score(mv, distances(v, mv), False)


ORACLE_ORDER = ['AV', 'PR', 'UI', 'AC', 'AT', 'VC', 'VI', 'VA', 'SC', 'SI', 'SA', 'CR', 'IR', 'AR', 'E']


def score_levels(levels):
    """exact score x 10 for the effective severity levels in ORACLE_ORDER (0 = first value of LEVELS[m])"""
    v = {m: LEVELS[m][l] for m, l in zip(ORACLE_ORDER, levels)}
    return score(v)


R_FINAL = [3, 2, 3, 3, 3, 2, 16, 16, 16, 16, 2]


@lru_cache(maxsize=None)
def table(name, key):
    if name == 'final':
        ds = []
        k = key
        for r in reversed(R_FINAL):
            ds.append(k % r)
            k //= r
        if k:
            raise KeyError(key)
        ds = ds[::-1]
        mv = tuple(ds[:6])
        if mvkey(*mv) not in LOOKUP:
            if ds[10]:
                return 0
            raise KeyError('no MacroVector %s' % mvkey(*mv))
        return final_score(mv, ds[6:10], bool(ds[10]))
    raise KeyError(name)


if __name__ == '__main__':
    import itertools
    import random
    # sanity: every MacroVector has a dominating highest-severity vector for every member (sampled), score in range
    rnd = random.Random(1)
    vals = {m: LEVELS[m] for m in LEVELS}
    worst = 0
    for _ in range(20000):
        v = {m: rnd.choice(vals[m]) for m in vals}
        if v['SI'] == 'S' and rnd.random() < 0.5:
            v['SI'] = 'H'
        s = score(v)
        assert 0 <= s <= 100
    print('spec v4 ok; example', score({'AV': 'N', 'AC': 'L', 'AT': 'N', 'PR': 'N', 'UI': 'N', 'VC': 'H', 'VI': 'H', 'VA': 'H', 'SC': 'H', 'SI': 'H', 'SA': 'H', 'E': 'A', 'CR': 'H', 'IR': 'H', 'AR': 'H'}))
