#!/usr/bin/env python3
"""Extracts the CVSS v4.0 data that cannot be re-derived offline (the 270
MacroVector lookup scores of section 8.3, the highest-severity vectors of
tables 24-30 and the MacroVector depths) from an INDEPENDENT transcription in
the Go module cache: claircore's port of the FIRST reference calculator
(github.com/hdonnay/claircore/toolkit .../types/cvss/cvss_v4_score.go),
written by other authors than go-cvss.  Output: v4_data.json (committed)."""
import hashlib
import json
import os
import re
import sys

SRC = '/root/go/pkg/mod/github.com/hdonnay/claircore/toolkit@v0.0.0-20240131190225-911cf68106a8/types/cvss/cvss_v4_score.go'


def main():
    txt = open(SRC).read()
    data = {'source': SRC, 'sha256': hashlib.sha256(txt.encode()).hexdigest()}
    lookup = {}
    for m in re.finditer(r'makeMacrovector\("(\d{6})"\):\s*([0-9.]+),', txt):
        lookup[m.group(1)] = m.group(2)
    assert len(lookup) == 270, len(lookup)
    data['lookup'] = lookup
    # maxFrag block
    i = txt.index('maxFrag: [...][][]*V4{')
    j = txt.index('eqDepth: [...][]float64{')
    block = txt[i:j]
    # the EQ4 level 0 fragment is built by hand in the source (SC:H/SI:S/SA:S)
    block = re.sub(r'\{func\(\) \*V4 \{.*?\}\(\)\}', '{mustParseV4Frag("SC:H/SI:S/SA:S")}', block, flags=re.S)
    # split into the six EQ entries by brace depth
    depth = 0
    eqs = []
    cur = None
    levels = None
    k = block.index('{') + 1
    depth = 1
    buf = ''
    out = []
    # crude brace parser: depth 2 = EQ, depth 3 = level
    eq = None
    for ch in block[k:]:
        if ch == '{':
            depth += 1
            if depth == 2:
                eq = []
            elif depth == 3:
                buf = ''
        elif ch == '}':
            if depth == 3:
                eq.append(re.findall(r'mustParseV4Frag\("([^"]+)"\)', buf))
            elif depth == 2:
                out.append(eq)
            depth -= 1
            if depth == 0:
                break
        elif depth >= 3:
            buf += ch
    assert len(out) == 6, len(out)
    data['maxfrag'] = {'eq1': out[0], 'eq2': out[1], 'eq4': out[3], 'eq5': out[4], 'eq3eq6': out[5]}
    dblock = txt[j:txt.index('macrovectorScore: map')]
    rows = re.findall(r'\{([^{}]*)\},', dblock)
    dep = [[None if 'NaN' in x else int(x) for x in [y.strip() for y in r.split(',')] if x] for r in rows]
    assert len(dep) == 6
    data['depth_plus_one'] = {'eq1': dep[0], 'eq2': dep[1], 'eq4': dep[3], 'eq5': dep[4], 'eq3eq6': dep[5]}
    with open(os.path.join(os.path.dirname(os.path.abspath(__file__)), 'v4_data.json'), 'w') as f:
        json.dump(data, f, indent=1, sort_keys=True)
    print('v4_data.json written:', len(lookup), 'lookup values;', data['maxfrag']['eq3eq6'], data['depth_plus_one'])


if __name__ == '__main__':
    main()
