"""Exact evaluators of the CVSS v2.0 / v3.0 / v3.1 equations (FIRST
specification documents), over the rationals: no floats anywhere.

They are the oracles of C03/C05/C10/C11/C12.  Keys are mixed-radix numbers
whose digits are indices into the metric value lists below (the same lists,
in the same order, as in the harness packages; both are transcribed from the
specification, not from the implementation).
"""
from fractions import Fraction as Fr
from functools import lru_cache
import math


def F(s):
    return Fr(s)


# ------------------------------------------------------------------ v3.x

V3_METRICS = [
    ('AV', ['N', 'A', 'L', 'P']), ('AC', ['L', 'H']), ('PR', ['N', 'L', 'H']), ('UI', ['N', 'R']), ('S', ['U', 'C']),
    ('C', ['H', 'L', 'N']), ('I', ['H', 'L', 'N']), ('A', ['H', 'L', 'N']),
    ('E', ['X', 'H', 'F', 'P', 'U']), ('RL', ['X', 'U', 'W', 'T', 'O']), ('RC', ['X', 'C', 'R', 'U']),
    ('CR', ['X', 'H', 'M', 'L']), ('IR', ['X', 'H', 'M', 'L']), ('AR', ['X', 'H', 'M', 'L']),
]
V3 = dict(V3_METRICS)
V3_W = {
    'AV': {'N': F('0.85'), 'A': F('0.62'), 'L': F('0.55'), 'P': F('0.2')},
    'AC': {'L': F('0.77'), 'H': F('0.44')},
    'PRU': {'N': F('0.85'), 'L': F('0.62'), 'H': F('0.27')},
    'PRC': {'N': F('0.85'), 'L': F('0.68'), 'H': F('0.5')},
    'UI': {'N': F('0.85'), 'R': F('0.62')},
    'CIA': {'H': F('0.56'), 'L': F('0.22'), 'N': F(0)},
    'E': {'X': F(1), 'H': F(1), 'F': F('0.97'), 'P': F('0.94'), 'U': F('0.91')},
    'RL': {'X': F(1), 'U': F(1), 'W': F('0.97'), 'T': F('0.96'), 'O': F('0.95')},
    'RC': {'X': F(1), 'C': F(1), 'R': F('0.96'), 'U': F('0.92')},
    'CIAR': {'X': F(1), 'H': F('1.5'), 'M': F(1), 'L': F('0.5')},
}


def roundup31(x):
    """CVSS v3.1 Appendix A Roundup, literally, on an exact rational"""
    i = math.floor(x * 100000 + Fr(1, 2))  # round to nearest integer (half up; inputs are >= 0)
    if i % 10000 == 0:
        return Fr(i, 100000)
    return Fr(i // 10000 + 1, 10)


def roundup30(x):
    """CVSS v3.0: smallest number with one decimal that is >= x"""
    return Fr(math.ceil(x * 10), 10)


def v3_exploitability(av, ac, pr, ui, s):
    prw = V3_W['PRC'][pr] if s == 'C' else V3_W['PRU'][pr]
    return F('8.22') * V3_W['AV'][av] * V3_W['AC'][ac] * prw * V3_W['UI'][ui]


def v3_impact_base(c, i, a, s):
    iss = 1 - (1 - V3_W['CIA'][c]) * (1 - V3_W['CIA'][i]) * (1 - V3_W['CIA'][a])
    if s == 'U':
        return F('6.42') * iss
    return F('7.52') * (iss - F('0.029')) - F('3.25') * (iss - F('0.02')) ** 15


def v3_base(ver, av, ac, pr, ui, s, c, i, a):
    ru = roundup31 if ver == 31 else roundup30
    imp = v3_impact_base(c, i, a, s)
    ex = v3_exploitability(av, ac, pr, ui, s)
    if imp <= 0:
        return Fr(0)
    if s == 'U':
        return ru(min(imp + ex, Fr(10)))
    return ru(min(F('1.08') * (imp + ex), Fr(10)))


def v3_temporalize(ver, score, e, rl, rc):
    ru = roundup31 if ver == 31 else roundup30
    return ru(score * V3_W['E'][e] * V3_W['RL'][rl] * V3_W['RC'][rc])


def v3_modbase(ver, mav, mac, mpr, mui, ms, mc, mi, ma, cr, ir, ar):
    """the inner Roundup(...) of the environmental equation (modified base score)"""
    ru = roundup31 if ver == 31 else roundup30
    miss = min(1 - (1 - V3_W['CIAR'][cr] * V3_W['CIA'][mc]) * (1 - V3_W['CIAR'][ir] * V3_W['CIA'][mi]) * (1 - V3_W['CIAR'][ar] * V3_W['CIA'][ma]), F('0.915'))
    if ms == 'U':
        mimp = F('6.42') * miss
    elif ver == 31:
        mimp = F('7.52') * (miss - F('0.029')) - F('3.25') * (miss * F('0.9731') - F('0.02')) ** 13
    else:
        mimp = F('7.52') * (miss - F('0.029')) - F('3.25') * (miss - F('0.02')) ** 15
    mex = v3_exploitability(mav, mac, mpr, mui, ms)
    if mimp <= 0:
        return None  # environmental score is 0 whatever E/RL/RC
    if ms == 'U':
        return ru(min(mimp + mex, Fr(10)))
    return ru(min(F('1.08') * (mimp + mex), Fr(10)))


def digits(key, radices):
    out = []
    for r in reversed(radices):
        out.append(key % r)
        key //= r
    if key:
        raise KeyError('key out of range')
    return out[::-1]


V3_BASE_R = [4, 2, 3, 2, 2, 3, 3, 3]
V3_TEMP_R = [5, 5, 4]
V3_REQ_R = [4, 4, 4]


def _v3names(ds, names):
    return [V3[n][d] for n, d in zip(names, ds)]


BASE_NAMES = ['AV', 'AC', 'PR', 'UI', 'S', 'C', 'I', 'A']


@lru_cache(maxsize=None)
def v3_table(ver, name, key):
    """all results are scores x 10 as integers (exact: scores have one decimal)"""
    if name == 'base':
        vals = _v3names(digits(key, V3_BASE_R), BASE_NAMES)
        return int(v3_base(ver, *vals) * 10)
    if name == 'impact_e12' or name == 'expl_e12':
        vals = _v3names(digits(key, V3_BASE_R), BASE_NAMES)
        av, ac, pr, ui, s, c, i, a = vals
        x = v3_impact_base(c, i, a, s) if name == 'impact_e12' else v3_exploitability(av, ac, pr, ui, s)
        return int(math.floor(x * 10 ** 12 + Fr(1, 2)))
    if name == 'temporalize':
        # key = score10 * 100 + (e, rl, rc)
        score10, k = divmod(key, 100)
        e, rl, rc = _v3names(digits(k, V3_TEMP_R), ['E', 'RL', 'RC'])
        if score10 < 0 or score10 > 100:
            raise KeyError(key)
        return int(v3_temporalize(ver, Fr(score10, 10), e, rl, rc) * 10)
    if name == 'modbase':
        # key = effective modified base metrics (digits as base metrics) then CR IR AR
        ds = digits(key, V3_BASE_R + V3_REQ_R)
        vals = _v3names(ds[:8], BASE_NAMES) + _v3names(ds[8:], ['CR', 'IR', 'AR'])
        r = v3_modbase(ver, *vals)
        return -1 if r is None else int(r * 10)
    if name == 'envfinal':
        # key = (modbase10 + 1) * 100 + (e, rl, rc); modbase10 == -1 means ModifiedImpact <= 0
        mb, k = divmod(key, 100)
        mb -= 1
        if mb == -1:
            return 0
        e, rl, rc = _v3names(digits(k, V3_TEMP_R), ['E', 'RL', 'RC'])
        return int(v3_temporalize(ver, Fr(mb, 10), e, rl, rc) * 10)
    raise KeyError(name)


# ------------------------------------------------------------------ v2.0

V2_METRICS = [
    ('AV', ['L', 'A', 'N']), ('AC', ['L', 'M', 'H']), ('Au', ['M', 'S', 'N']),
    ('C', ['N', 'P', 'C']), ('I', ['N', 'P', 'C']), ('A', ['N', 'P', 'C']),
    ('E', ['ND', 'U', 'POC', 'F', 'H']), ('RL', ['ND', 'OF', 'TF', 'W', 'U']), ('RC', ['ND', 'UC', 'UR', 'C']),
    ('CDP', ['ND', 'N', 'L', 'LM', 'MH', 'H']), ('TD', ['ND', 'N', 'L', 'M', 'H']),
    ('CR', ['ND', 'L', 'M', 'H']), ('IR', ['ND', 'L', 'M', 'H']), ('AR', ['ND', 'L', 'M', 'H']),
]
V2 = dict(V2_METRICS)
V2_W = {
    'AV': {'L': F('0.395'), 'A': F('0.646'), 'N': F('1.0')},
    'AC': {'H': F('0.35'), 'M': F('0.61'), 'L': F('0.71')},
    'Au': {'M': F('0.45'), 'S': F('0.56'), 'N': F('0.704')},
    'CIA': {'N': F(0), 'P': F('0.275'), 'C': F('0.660')},
    'E': {'U': F('0.85'), 'POC': F('0.9'), 'F': F('0.95'), 'H': F(1), 'ND': F(1)},
    'RL': {'OF': F('0.87'), 'TF': F('0.90'), 'W': F('0.95'), 'U': F(1), 'ND': F(1)},
    'RC': {'UC': F('0.90'), 'UR': F('0.95'), 'C': F(1), 'ND': F(1)},
    'CDP': {'N': F(0), 'L': F('0.1'), 'LM': F('0.3'), 'MH': F('0.4'), 'H': F('0.5'), 'ND': F(0)},
    'TD': {'N': F(0), 'L': F('0.25'), 'M': F('0.75'), 'H': F(1), 'ND': F(1)},
    'CIAR': {'L': F('0.5'), 'M': F(1), 'H': F('1.51'), 'ND': F(1)},
}


def round1(x):
    """round_to_1_decimal on an exact rational: (lo10, hi10) = the conforming
    results x 10; they differ only when x is exactly half-way between two tenths"""
    t = x * 10
    fl = math.floor(t)
    frac = t - fl
    if frac == Fr(1, 2):
        return fl, fl + 1
    if frac > Fr(1, 2):
        return fl + 1, fl + 1
    return fl, fl


def v2_exploitability(av, ac, au):
    return 20 * V2_W['AV'][av] * V2_W['AC'][ac] * V2_W['Au'][au]


def v2_impact(c, i, a, cr='ND', ir='ND', ar='ND'):
    w = V2_W['CIA']
    r = V2_W['CIAR']
    return F('10.41') * (1 - (1 - w[c] * r[cr]) * (1 - w[i] * r[ir]) * (1 - w[a] * r[ar]))


def v2_basecore(impact, expl):
    f = Fr(0) if impact == 0 else F('1.176')
    return (F('0.6') * impact + F('0.4') * expl - F('1.5')) * f


V2_BASE_R = [3, 3, 3, 3, 3, 3]
V2_TEMP_R = [5, 5, 4]
V2_REQ_R = [4, 4, 4]
V2_ENV_R = [6, 5]
V2_BASE_NAMES = ['AV', 'AC', 'Au', 'C', 'I', 'A']


def _v2names(ds, names):
    return [V2[n][d] for n, d in zip(names, ds)]


@lru_cache(maxsize=None)
def v2_table(name, key):
    hi = name.endswith('_hi')
    if name.endswith('_lo') or name.endswith('_hi'):
        name = name[:-3]
    pick = 1 if hi else 0
    if name == 'base':
        av, ac, au, c, i, a = _v2names(digits(key, V2_BASE_R), V2_BASE_NAMES)
        return round1(v2_basecore(v2_impact(c, i, a), v2_exploitability(av, ac, au)))[pick]
    if name in ('impact_e12', 'expl_e12'):
        av, ac, au, c, i, a = _v2names(digits(key, V2_BASE_R), V2_BASE_NAMES)
        x = v2_impact(c, i, a) if name == 'impact_e12' else v2_exploitability(av, ac, au)
        return int(math.floor(x * 10 ** 12 + Fr(1, 2)))
    if name == 'adjbase':
        ds = digits(key, V2_BASE_R + V2_REQ_R)
        av, ac, au, c, i, a = _v2names(ds[:6], V2_BASE_NAMES)
        cr, ir, ar = _v2names(ds[6:], ['CR', 'IR', 'AR'])
        imp = min(Fr(10), v2_impact(c, i, a, cr, ir, ar))
        return round1(v2_basecore(imp, v2_exploitability(av, ac, au)))[pick]
    if name == 'temporalize':
        # key = (score10 + 100) * 100 + (e, rl, rc); scores may be slightly negative in v2
        s10, k = divmod(key, 100)
        s10 -= 100
        e, rl, rc = _v2names(digits(k, V2_TEMP_R), ['E', 'RL', 'RC'])
        return round1(Fr(s10, 10) * V2_W['E'][e] * V2_W['RL'][rl] * V2_W['RC'][rc])[pick]
    if name == 'envfinal':
        # key = (adjtemporal10 + 100) * 100 + (cdp, td)
        s10, k = divmod(key, 100)
        s10 -= 100
        cdp, td = _v2names(digits(k, V2_ENV_R), ['CDP', 'TD'])
        at = Fr(s10, 10)
        return round1((at + (10 - at) * V2_W['CDP'][cdp]) * V2_W['TD'][td])[pick]
    raise KeyError(name)


def lookup(name, key):
    """entry point of verif.Table: name = '<version>_<table>'"""
    ver, _, tab = name.partition('_')
    if ver == 'v31':
        return v3_table(31, tab, key)
    if ver == 'v30':
        return v3_table(30, tab, key)
    if ver == 'v2':
        return v2_table(tab, key)
    if ver == 'v4':
        import cvss4_spec
        return cvss4_spec.table(tab, key)
    raise KeyError(name)


if __name__ == '__main__':
    import itertools
    # pre-checks quoted in DESIGN 6b
    bad = 0
    n = 0
    for vals in itertools.product(*[V3[m] for m in BASE_NAMES]):
        n += 1
        for ver in (30, 31):
            pass
        av, ac, pr, ui, s, c, i, a = vals
        imp = v3_impact_base(c, i, a, s)
        ex = v3_exploitability(av, ac, pr, ui, s)
        if imp > 0:
            x = min(imp + ex, Fr(10)) if s == 'U' else min(F('1.08') * (imp + ex), Fr(10))
            if roundup30(x) != roundup31(x):
                bad += 1
    print('v3 base classes', n, 'roundup30 != roundup31 on', bad)
    ties = 0
    for key in range(3 ** 6):
        lo, hi = v2_table('base_lo', key), v2_table('base_hi', key)
        ties += lo != hi
    print('v2 base ties', ties)
    ties = 0
    for key in range(3 ** 6 * 64):
        ties += v2_table('adjbase_lo', key) != v2_table('adjbase_hi', key)
    print('v2 adjusted base ties', ties, 'of', 3 ** 6 * 64)
    ties = []
    for s10 in range(-20, 101):
        for k in range(100):
            key = (s10 + 100) * 100 + k
            if v2_table('temporalize_lo', key) != v2_table('temporalize_hi', key):
                ties.append((s10, k))
    print('v2 temporalize ties', len(ties), ties[:10])
    ties = []
    for s10 in range(-20, 101):
        for k in range(30):
            key = (s10 + 100) * 100 + k
            if v2_table('envfinal_lo', key) != v2_table('envfinal_hi', key):
                ties.append((s10, k))
    print('v2 envfinal ties', len(ties), ties[:10])
