"""Cube-and-conquer on the integer->float frontier (DESIGN 3.4).

Given a harness run whose assertions contain floating-point terms:
  * the *zone* is everything only concrete evaluation can decide (FP nodes,
    oracle tables, staged values and the Boolean/BV structure above them);
  * the *frontier* is the set of maximal non-zone, input-dependent subterms
    feeding the zone (bit-field extractions, mod() results, key digits ...);
  * frontier terms are grouped by the input *bits* they depend on; the tuples
    of each group are enumerated by the SMT solver under the harness
    assumptions (AllSAT with blocking clauses; the final unsat is the coverage
    certificate of the group), the cube set is the product of the groups, a
    superset of the reachable frontier tuples;
  * per cube the zone is folded by the solver's rewriter (z3 simplify on
    literal operands; cross-checked by a Python IEEE evaluation);
  * where the product is too large the DAG is cut at staged values (results of
    the rounding helpers / nested score calls): inner cubes first, then the
    outer expression over the (few) distinct inner values;
  * a cube on which an assertion fails is confirmed by a solver query for a
    concrete input of that cube, which is then replayed natively.
"""
import itertools
import multiprocessing
import os
import struct
import time

import terms as TM
from terms import *  # noqa
import solve

ZONE_OPS = set(['flt', 'fle', 'feq', 'fisnan', 'fisneg', 'f2i', 'fbits', 'table', 'stage', 'i2f', 'bits2f',
                'fadd', 'fsub', 'fmul', 'fdiv', 'fneg', 'fabs', 'fround', 'functional', 'monotone'])
LIMIT = 400000


class Plan(object):
    pass


def analyse(roots, resolved, records=()):
    """zone marking with `resolved` nodes (id -> var) treated as frontier leaves"""
    order = topo_view(roots, resolved)
    zone = {}
    above_istage = {}
    peel = set()
    for t in order:
        if t.id in resolved:
            zone[t.id] = False
            continue
        z = t.sort == 'F' or t.op in ZONE_OPS
        if not z and t.op != 'istage':
            for a in t.args:
                # everything above a zone node or above an integer cut point is evaluated concretely
                if zone[a.id] or a.op == 'istage' or above_istage.get(a.id):
                    z = True
                    break
        if t.op != 'istage' and any(a.op == 'istage' or above_istage.get(a.id) for a in t.args):
            above_istage[t.id] = True
        zone[t.id] = z
    # peel the integer arithmetic of table keys so that their digits become frontier terms
    def peel_from(t):
        if t.id in resolved or zone[t.id] or t.op == 'const':
            return
        if t.op in ('bvadd', 'bvsub', 'bvmul'):
            zone[t.id] = True
            for a in t.args:
                peel_from(a)
    for t in order:
        if t.op == 'table' and t.id not in resolved:
            peel_from(t.args[0])
    frontier = {}
    for t in order:
        if zone[t.id]:
            for a in t.args:
                if not zone[a.id] and a.op != 'const':
                    frontier[a.id] = a
    for t in records:
        if t.op != 'const' and t.id not in resolved:
            frontier[t.id] = t
    return order, zone, frontier


def topo_view(roots, resolved):
    seen = set()
    out = []
    stack = [(r, False) for r in roots]
    while stack:
        t, done = stack.pop()
        if done:
            out.append(t)
            continue
        if t.id in seen:
            continue
        seen.add(t.id)
        stack.append((t, True))
        if t.id in resolved:
            continue
        for a in t.args:
            if a.id not in seen:
                stack.append((a, False))
    return out


# ------------------------------------------------------------------ bit-level support

def bit_support(t, memo):
    """list (one frozenset per output bit; Bool = 1 bit) of the input bits (var, i) a term may depend on"""
    r = memo.get(t.id)
    if r is not None:
        return r
    w = 1 if t.sort == 'B' else (64 if t.sort == 'F' else t.sort)
    op = t.op
    if op == 'const':
        r = [frozenset()] * w
    elif op == 'var':
        r = [frozenset([(t.val, i)]) for i in range(w)]
    else:
        a = [bit_support(x, memo) for x in t.args]
        if op in ('bvand', 'bvor', 'bvxor'):
            x, y = t.args
            if op == 'bvand' and y.op == 'const':
                r = [a[0][i] if (y.val >> i) & 1 else frozenset() for i in range(w)]
            elif op == 'bvand' and x.op == 'const':
                r = [a[1][i] if (x.val >> i) & 1 else frozenset() for i in range(w)]
            else:
                r = [a[0][i] | a[1][i] for i in range(w)]
        elif op in ('bvshl', 'bvlshr') and t.args[1].op == 'const':
            k = t.args[1].val
            if op == 'bvshl':
                r = [a[0][i - k] if i - k >= 0 else frozenset() for i in range(w)]
            else:
                r = [a[0][i + k] if i + k < w else frozenset() for i in range(w)]
        elif op == 'bvnot':
            r = a[0]
        elif op == 'zext':
            r = a[0] + [frozenset()] * (w - len(a[0]))
        elif op == 'sext':
            r = a[0] + [a[0][-1]] * (w - len(a[0]))
        elif op == 'extract':
            hi, lo = t.val
            r = a[0][lo:hi + 1]
        elif op == 'ite':
            c = a[0][0]
            r = [c | a[1][i] | a[2][i] for i in range(w)]
        elif op in ('bvadd', 'bvsub'):
            acc = frozenset()
            r = []
            for i in range(w):
                acc = acc | a[0][i] | a[1][i]
                r.append(acc)
        else:
            u = frozenset()
            for x in a:
                for s in x:
                    u = u | s
            r = [u] * w
    memo[t.id] = r
    return r


def support(t, memo):
    u = frozenset()
    for s in bit_support(t, memo):
        u = u | s
    return u


def group_terms(terms, memo):
    """union-find of terms sharing an input bit"""
    parent = list(range(len(terms)))

    def find(i):
        while parent[i] != i:
            parent[i] = parent[parent[i]]
            i = parent[i]
        return i
    owner = {}
    for i, t in enumerate(terms):
        for b in support(t, memo):
            j = owner.get(b)
            if j is None:
                owner[b] = i
            else:
                parent[find(i)] = find(j)
    groups = {}
    for i, t in enumerate(terms):
        groups.setdefault(find(i), []).append(t)
    return list(groups.values())


# ------------------------------------------------------------------ AllSAT on a group

_PE = {}


def _pe_worker(chunk):
    """enumerate the group's tuples under each assignment of the split terms in chunk"""
    g = _PE
    enum = Enumerator(g['assumptions'], g['terms'], g['solver'], g['timeout'])
    out = []
    complete = True
    q = 0
    try:
        for sv in chunk:
            fixed = list(zip(g['split'], sv))
            tups, ok = enum.tuples_under(g['rest'], fixed)
            complete = complete and ok
            for tp in tups:
                out.append((sv, tp))
        q = enum.queries
    finally:
        enum.close()
    return out, complete, q


def parallel_tuples(assumptions, grp, split, solver, timeout, workers, enum, log):
    """AllSAT of a large group, partitioned on the values of the split terms"""
    svals, ok = enum.tuples(split)
    if not ok:
        return [], False, 0
    rest = [t for t in grp if t not in split]
    _PE.clear()
    _PE.update({'assumptions': assumptions, 'terms': grp, 'split': split, 'rest': rest, 'solver': solver, 'timeout': timeout})
    nchunks = min(len(svals), workers * 4)
    chunks = [svals[i::nchunks] for i in range(nchunks)]
    tuples = []
    complete = True
    queries = 0
    pos = {t.id: i for i, t in enumerate(split)}
    rpos = {t.id: i for i, t in enumerate(rest)}
    with multiprocessing.Pool(workers) as pool:
        for out, ok, q in pool.imap_unordered(_pe_worker, chunks):
            complete = complete and ok
            queries += q
            for sv, tp in out:
                tuples.append(tuple(sv[pos[t.id]] if t.id in pos else tp[rpos[t.id]] for t in grp))
    log('      partitioned AllSAT: %d partitions, %d tuples, %d queries' % (len(svals), len(tuples), queries))
    return tuples, complete, queries


def local_tuples(assumptions, grp, memo, solver='z3', timeout=600):
    """AllSAT of a small-support group against only the assumption conjuncts that talk about
    the group's input bits.  Dropping the other conjuncts can only add tuples (sound
    over-approximation of the reachable set); the formula is tiny, so enumeration is fast.
    Returns (tuples, complete, queries)"""
    sup = frozenset()
    for t in grp:
        sup = sup | support(t, memo)
    lits = []
    for a in assumptions:
        for l in TM._lits(a):
            ls = support(l, memo)
            # conjuncts about (almost) everything are left out: they cannot be projected cheaply
            if ls & sup and len(ls) <= 64:
                lits.append(l)
    e = Enumerator(lits, grp, solver, timeout)
    try:
        tups, ok = e.tuples(grp)
        return tups, ok, e.queries
    finally:
        e.close()


def fine_frontier(terms_, maxbits, memo):
    """maximal subterms (below terms_) whose value depends on at most maxbits input bits"""
    out = {}
    seen = set()
    stack = list(terms_)
    while stack:
        t = stack.pop()
        if t.id in seen or t.op == 'const':
            continue
        seen.add(t.id)
        if t.op == 'var' or len(support(t, memo)) <= maxbits or all(a.op in ('var', 'const') for a in t.args):
            # small support, or an atomic predicate / extraction on the inputs (cannot be split further)
            out[t.id] = t
            continue
        stack.extend(t.args)
    return list(out.values())


_DV = {}


def _dv_worker(rg):
    import numpy as np
    import vecval
    g = _DV
    lo, hi = rg
    idx = np.arange(lo, hi, dtype=np.int64)
    env = {}
    for (cols, size, stride) in g['groups']:
        dig = (idx // stride) % size
        for name, arr in cols:
            env[name] = arr[dig]
    res = vecval.evaluate(g['outs'], env, hi - lo)
    mat = np.stack([r.astype(np.uint64) for r in res], axis=1)
    return np.unique(mat, axis=0)


def col_domain(t):
    """sorted list of the values (as unsigned machine values) a column term can take, from its structure"""
    if t.sort == 'B':
        return [0, 1]
    vs = TM.valueset(t)
    if vs is not None:
        return sorted(vs)
    r = TM._irange(t)
    if r is not None and r[1] - r[0] < 4096:
        w = t.sort
        return sorted((v & ((1 << w) - 1)) for v in range(r[0], r[1] + 1))
    return None


def _dvk_worker(rg):
    """like _dv_worker but returns the unique rows packed into one uint64 key per row"""
    import numpy as np
    import vecval
    g = _DV
    lo, hi = rg
    idx = np.arange(lo, hi, dtype=np.int64)
    env = {}
    for (cols, size, stride) in g['groups']:
        dig = (idx // stride) % size
        for name, arr in cols:
            env[name] = arr[dig]
    res = vecval.evaluate(g['outs'], env, hi - lo)
    key = np.zeros(hi - lo, dtype=np.uint64)
    for r, dom, st in zip(res, g['domains'], g['strides']):
        r = r.astype(np.uint64)
        pos = np.searchsorted(dom, r)
        pos = np.minimum(pos, len(dom) - 1)
        if not np.array_equal(dom[pos], r):
            raise ValueError('value outside the predicted column domain')
        key += pos.astype(np.uint64) * np.uint64(st)
    return np.unique(key)


def derive_keys(grp, assumptions, workers, log, maxbits=5, memo=None, solver='z3', timeout=600):
    """as derive_tuples, for very large tuple sets: returns (matrix of distinct rows as column
    indices into the per-column domains, domains, complete, info)"""
    import numpy as np
    memo = {} if memo is None else memo
    fine = fine_frontier(grp, maxbits, memo)
    fgroups = group_terms(fine, memo)
    gdesc = []
    total = 1
    complete = True
    sub = {}
    queries = 0
    for fg in fgroups:
        fg.sort(key=lambda t: t.id)
        tups, ok, q = local_tuples(assumptions, fg, memo, solver, timeout)
        queries += q
        complete = complete and ok
        if not tups:
            return None, None, False, {'reason': 'empty fine group'}
        cols = []
        for j, t in enumerate(fg):
            v = TM.var('ff%d' % t.id, t.sort)
            sub[t.id] = v
            if t.sort == 'B':
                arr = np.array([bool(tp[j]) for tp in tups])
            else:
                arr = np.array([tp[j] for tp in tups], dtype=np.uint64)
            cols.append((v.val, arr))
        gdesc.append([cols, len(tups), None])
        total *= len(tups)
    stride = 1
    for gd in gdesc:
        gd[2] = stride
        stride *= gd[1]
    outs = [substitute(t, sub) for t in grp]
    domains = []
    strides = []
    st = 1
    for t in grp:
        d = col_domain(t)
        if d is None:
            return None, None, False, {'reason': 'no finite domain for column %s' % TM.pp(t, 2)}
        domains.append(np.array(d, dtype=np.uint64))
        strides.append(st)
        st *= len(d)
        if st >= 1 << 63:
            return None, None, False, {'reason': 'row key does not fit in 64 bits'}
    _DV.clear()
    _DV.update({'groups': [tuple(g) for g in gdesc], 'outs': outs, 'domains': domains, 'strides': strides})
    chunk = 400000
    ranges = [(i, min(total, i + chunk)) for i in range(0, total, chunk)]
    t0 = time.time()
    if len(ranges) == 1 or workers <= 1:
        parts = [_dvk_worker(r) for r in ranges]
    else:
        parts = []
        with multiprocessing.Pool(workers) as pool:
            acc = []
            n = 0
            for p in pool.imap_unordered(_dvk_worker, ranges, chunksize=1):
                acc.append(p)
                n += len(p)
                if n > 40000000:
                    acc = [np.unique(np.concatenate(acc))]
                    n = len(acc[0])
            parts = acc
    keys = np.unique(np.concatenate(parts))
    mat = np.empty((len(keys), len(grp)), dtype=np.int64)
    rest = keys.copy()
    for j in range(len(grp) - 1, -1, -1):
        mat[:, j] = (rest // np.uint64(strides[j])).astype(np.int64)
        rest = rest % np.uint64(strides[j])
    info = {'fine_terms': len(fine), 'fine_groups': [g[1] for g in gdesc], 'fine_cubes': total, 'rows': int(len(keys)), 'eval_s': round(time.time() - t0, 1), 'allsat_queries': queries}
    log('      derived %d distinct rows of %d columns from %d fine cubes (%s) in %.1fs' % (len(keys), len(grp), total, 'x'.join(str(g[1]) for g in gdesc), time.time() - t0))
    return mat, domains, complete, info


def derive_tuples(grp, enum, workers, log, maxbits=5, memo=None):
    """value tuples of the (coarse) terms grp: the solver enumerates the tuples of a finer frontier
    (small bit-field terms, grouped by support; final unsat = coverage), the coarse terms are then
    evaluated exactly (integer/Boolean ops only) over the product of those tuples"""
    import numpy as np
    memo = {} if memo is None else memo
    fine = fine_frontier(grp, maxbits, memo)
    fgroups = group_terms(fine, memo)
    gdesc = []
    total = 1
    complete = True
    sub = {}
    for fg in fgroups:
        fg.sort(key=lambda t: t.id)
        tups, ok, q = local_tuples(enum.assumptions, fg, memo, enum.kind, enum.timeout)
        enum.queries += q
        complete = complete and ok
        if not tups:
            return [], False, {'reason': 'empty fine group'}
        cols = []
        for j, t in enumerate(fg):
            v = TM.var('ff%d' % t.id, t.sort)
            sub[t.id] = v
            if t.sort == 'B':
                arr = np.array([bool(tp[j]) for tp in tups])
            else:
                arr = np.array([tp[j] for tp in tups], dtype=np.uint64)
            cols.append((v.val, arr))
        gdesc.append([cols, len(tups), None])
        total *= len(tups)
    stride = 1
    for gd in gdesc:
        gd[2] = stride
        stride *= gd[1]
    outs = [substitute(t, sub) for t in grp]
    _DV.clear()
    _DV.update({'groups': [tuple(g) for g in gdesc], 'outs': outs})
    chunk = 400000
    ranges = [(i, min(total, i + chunk)) for i in range(0, total, chunk)]
    t0 = time.time()
    uniq = None
    if len(ranges) == 1 or workers <= 1:
        parts = [_dv_worker(r) for r in ranges]
    else:
        with multiprocessing.Pool(workers) as pool:
            parts = list(pool.imap_unordered(_dv_worker, ranges, chunksize=1))
    allm = np.unique(np.concatenate(parts, axis=0), axis=0)
    tuples = []
    for row in allm:
        tuples.append(tuple(bool(x) if t.sort == 'B' else int(x) for x, t in zip(row, grp)))
    info = {'fine_terms': len(fine), 'fine_groups': [g[1] for g in gdesc], 'fine_cubes': total, 'coarse_tuples': len(tuples), 'eval_s': round(time.time() - t0, 1)}
    log('      derived %d tuples of the %d coarse frontier terms from %d fine cubes (%s) in %.1fs' % (len(tuples), len(grp), total, 'x'.join(str(g[1]) for g in gdesc), time.time() - t0))
    return tuples, complete, info


def valstr(t, v):
    if t.sort == 'B':
        return 'true' if v else 'false'
    return TM.conststr(TM.const(t.sort, v))


class Enumerator(object):
    """one solver with the assumptions asserted; enumerates the value tuples of term lists"""

    def __init__(self, assumptions, all_terms, kind='z3', timeout=600):
        self.kind = kind
        self.timeout = timeout
        self.assumptions = assumptions
        roots = list(assumptions) + list(all_terms)
        text, self.vars = TM.smt_defs(roots)
        self.pre = text + '\n' + '\n'.join('(assert %s)' % TM.name(a) for a in assumptions)
        self.s = None
        self.queries = 0
        self.time = 0.0
        self.restart()

    def restart(self):
        if self.s is not None:
            self.s.close()
        self.s = solve.Solver(self.kind, self.timeout)
        self.s.send(self.pre)
        self.s.sync(extra=120)

    def tuples(self, terms_, limit=200000):
        """all value tuples of terms_ under the assumptions; (list, complete?)"""
        s = self.s
        t0 = time.time()
        s.send('(push 1)')
        out = []
        names = [TM.name(t) for t in terms_]
        complete = False
        while len(out) < limit:
            s.send('(check-sat)')
            self.queries += 1
            line = s._readline(time.time() + self.timeout + 30)
            if line is None:
                break
            line = line.strip()
            if line == 'unsat':
                complete = True
                break
            if line != 'sat':
                break
            s.send('(get-value (%s))' % ' '.join(names))
            txt = s._read_sexp(time.time() + 60)
            vals = solve.parse_values(txt)
            tup = tuple(vals[n] for n in names)
            out.append(tup)
            s.send('(assert (not (and %s)))' % ' '.join('(= %s %s)' % (n, valstr(t, v)) for n, t, v in zip(names, terms_, tup)))
        s.send('(pop 1)')
        self.time += time.time() - t0
        return out, complete

    def tuples_under(self, terms_, fixed, limit=2000000):
        """tuples of terms_ under the extra constraints fixed = [(term, value)]"""
        s = self.s
        s.send('(push 1)')
        for t, v in fixed:
            s.send('(assert (= %s %s))' % (TM.name(t), valstr(t, v)))
        r = self.tuples(terms_, limit)
        s.send('(pop 1)')
        return r

    def witness(self, constraints):
        """model of the inputs with term == value for every (term, value)"""
        cs = ' '.join('(= %s %s)' % (TM.name(t), valstr(t, v)) for t, v in constraints)
        st, model = self.s.check('(and true %s)' % cs, want_model=True, vars_=sorted(self.vars))
        self.queries += 1
        return st, model

    def close(self):
        self.s.close()


# ------------------------------------------------------------------ evaluation of the zone per cube

_W = {}


def _fold_init():
    """per worker: z3 expressions of the outputs (built lazily after fork)"""
    import z3
    g = _W
    g['z3'] = z3
    sub = g['sub']
    outs = g['outs']
    order = topo_sub(outs, sub)
    # build expressions bottom-up through the API (fast, no quantifiers)
    ctx_vars = {}
    exprs = {}

    def zsort(s):
        if s == 'B':
            return z3.BoolSort()
        if s == 'F':
            return z3.Float64()
        return z3.BitVecSort(s)
    for v in g['allvars']:
        ctx_vars[v.val] = z3.Const(v.val, zsort(v.sort))
    rne = z3.RNE()
    rms = {'rna': z3.RNA(), 'rne': z3.RNE(), 'rtn': z3.RTN(), 'rtp': z3.RTP(), 'rtz': z3.RTZ()}

    def cv(t):
        if t.sort == 'B':
            return z3.BoolVal(bool(t.val))
        if t.sort == 'F':
            b = t.val
            return z3.fpFP(z3.BitVecVal(b >> 63, 1), z3.BitVecVal((b >> 52) & 0x7ff, 11), z3.BitVecVal(b & ((1 << 52) - 1), 52))
        return z3.BitVecVal(t.val, t.sort)
    for t in order:
        if t.id in sub:
            exprs[t.id] = ctx_vars[sub[t.id].val]
            continue
        op = t.op
        if op == 'const':
            exprs[t.id] = cv(t)
            continue
        if op == 'var':
            exprs[t.id] = ctx_vars[t.val]
            continue
        a = [exprs[x.id] for x in t.args]
        if op == 'and':
            e = z3.And(*a)
        elif op == 'or':
            e = z3.Or(*a)
        elif op == 'not':
            e = z3.Not(a[0])
        elif op == 'ite':
            e = z3.If(a[0], a[1], a[2])
        elif op == 'eq':
            e = a[0] == a[1]
        elif op == 'bvadd':
            e = a[0] + a[1]
        elif op == 'bvsub':
            e = a[0] - a[1]
        elif op == 'bvmul':
            e = a[0] * a[1]
        elif op == 'bvand':
            e = a[0] & a[1]
        elif op == 'bvor':
            e = a[0] | a[1]
        elif op == 'bvxor':
            e = a[0] ^ a[1]
        elif op == 'bvshl':
            e = a[0] << a[1]
        elif op == 'bvlshr':
            e = z3.LShR(a[0], a[1])
        elif op == 'bvashr':
            e = a[0] >> a[1]
        elif op == 'bvudiv':
            e = z3.UDiv(a[0], a[1])
        elif op == 'bvurem':
            e = z3.URem(a[0], a[1])
        elif op == 'bvsdiv':
            e = a[0] / a[1]
        elif op == 'bvsrem':
            e = z3.SRem(a[0], a[1])
        elif op == 'bvnot':
            e = ~a[0]
        elif op == 'bvneg':
            e = -a[0]
        elif op == 'ult':
            e = z3.ULT(a[0], a[1])
        elif op == 'ule':
            e = z3.ULE(a[0], a[1])
        elif op == 'slt':
            e = a[0] < a[1]
        elif op == 'sle':
            e = a[0] <= a[1]
        elif op == 'zext':
            e = z3.ZeroExt(t.sort - t.args[0].sort, a[0])
        elif op == 'sext':
            e = z3.SignExt(t.sort - t.args[0].sort, a[0])
        elif op == 'extract':
            e = z3.Extract(t.val[0], t.val[1], a[0])
        elif op == 'fadd':
            e = z3.fpAdd(rne, a[0], a[1])
        elif op == 'fsub':
            e = z3.fpSub(rne, a[0], a[1])
        elif op == 'fmul':
            e = z3.fpMul(rne, a[0], a[1])
        elif op == 'fdiv':
            e = z3.fpDiv(rne, a[0], a[1])
        elif op == 'fneg':
            e = z3.fpNeg(a[0])
        elif op == 'fabs':
            e = z3.fpAbs(a[0])
        elif op == 'flt':
            e = z3.fpLT(a[0], a[1])
        elif op == 'fle':
            e = z3.fpLEQ(a[0], a[1])
        elif op == 'feq':
            e = z3.fpEQ(a[0], a[1])
        elif op == 'fisnan':
            e = z3.fpIsNaN(a[0])
        elif op == 'fisneg':
            e = z3.fpIsNegative(a[0])
        elif op == 'i2f':
            e = z3.fpSignedToFP(rne, a[0], z3.Float64())
        elif op == 'f2i':
            e = z3.fpToSBV(z3.RTZ(), a[0], z3.BitVecSort(t.sort))
        elif op == 'fround':
            e = z3.fpRoundToIntegral(rms[t.val], a[0])
        elif op == 'bits2f':
            e = z3.fpBVToFP(a[0], z3.Float64())
        elif op in ('stage', 'name', 'istage'):
            e = a[0]
        else:
            raise ValueError('fold: unsupported op ' + op)
        exprs[t.id] = e
    g['zouts'] = [exprs[o.id] for o in outs]
    if len(outs) > 1:
        packer = z3.Function('outs!', *([zsort(o.sort) for o in outs] + [z3.BoolSort()]))
        g['zall'] = packer(*g['zouts'])
    else:
        g['zall'] = g['zouts'][0]
    g['zvars'] = ctx_vars
    g['ready'] = True


def topo_sub(roots, sub):
    seen = set()
    out = []
    stack = [(r, False) for r in roots]
    while stack:
        t, done = stack.pop()
        if done:
            out.append(t)
            continue
        if t.id in seen:
            continue
        seen.add(t.id)
        stack.append((t, True))
        if t.id in sub:
            continue
        for a in t.args:
            if a.id not in seen:
                stack.append((a, False))
    return out


def _zval(z3, v, sort):
    if sort == 'B':
        return z3.BoolVal(bool(v))
    if sort == 'F':
        b = v
        return z3.fpFP(z3.BitVecVal(b >> 63, 1), z3.BitVecVal((b >> 52) & 0x7ff, 11), z3.BitVecVal(b & ((1 << 52) - 1), 52))
    return z3.BitVecVal(v, sort)


def _z3_to_py(z3, e, sort):
    if sort == 'B':
        if z3.is_true(e):
            return True
        if z3.is_false(e):
            return False
        return None
    if sort == 'F':
        if z3.is_fp_value(e) or z3.is_fprm_value(e):
            if e.isNaN():
                return 0x7FF8000000000001
            if e.isInf():
                return 0xFFF0000000000000 if e.isNegative() else 0x7FF0000000000000
            if e.isZero():
                return (1 << 63) if e.isNegative() else 0
            sgn = 1 if e.sign() else 0
            ex = e.exponent_as_long(True)
            sig = e.significand_as_long()
            return (sgn << 63) | (ex << 52) | sig
        return None
    if z3.is_bv_value(e):
        return e.as_long()
    return None


def fbits_of(x):
    return struct.unpack('<Q', struct.pack('<d', x))[0]


def eval_chunk(args):
    """worker: evaluate the outputs on a chunk of cubes.
    Returns list of (cube index, tuple of output values (floats as bit patterns))"""
    g = _W
    lo, hi = args
    use_z3 = g['use_z3']
    if use_z3 and not g.get('ready'):
        _fold_init()
    outs = g['outs']
    invars = g['invars']        # var terms in cube order
    tabnodes = g['tabnodes']    # [(table node, its var)] in dependency order
    tabkeys = g['tabkeys']      # substituted key terms
    cubes = g['cubes']
    tables = g['tables']
    res = []
    nin = len(invars)
    mism = 0
    for ci in range(lo, hi):
        cube = cubes(ci)
        env = {}
        for v, val in zip(invars, cube):
            env[v.val] = val
        # oracle tables first (pure integer keys), in dependency order
        err = None
        for (tn, tv), kt in zip(tabnodes, tabkeys):
            k = TM.evaluate([kt], env, None)[0]
            try:
                env[tv.val] = tables(tn.val, TM.signed(k, 64)) & ((1 << 64) - 1)
            except KeyError as e:
                err = 'table %s has no key %d' % (tn.val, TM.signed(k, 64))
                env[tv.val] = (1 << 64) - 7
        py = TM.evaluate(g['outs_sub'], env, None)
        pyv = []
        for o, v in zip(outs, py):
            pyv.append(fbits_of(v) if o.sort == 'F' else (bool(v) if o.sort == 'B' else v))
        if use_z3:
            z3 = g['z3']
            subs = [(g['zvars'][name], _zval(z3, val, srt)) for name, val, srt in ((v.val, env[v.val], v.sort) for v in g['allvars'])]
            e = z3.simplify(z3.substitute(g['zall'], *subs))
            kids = e.children() if len(outs) > 1 else [e]
            zv = [_z3_to_py(z3, k, o.sort) for k, o in zip(kids, outs)]
            for a, b, o in zip(zv, pyv, outs):
                if a is None or (a != b and not (o.sort == 'F' and _isnan_bits(a) and _isnan_bits(b))):
                    mism += 1
                    err = (err or '') + ' evaluator disagreement (solver fold %r vs python %r)' % (a, b)
            vals = tuple(zv)
        else:
            vals = tuple(pyv)
        res.append((ci, vals, err))
    return res


def _isnan_bits(b):
    return b is not None and (b >> 52) & 0x7ff == 0x7ff and (b & ((1 << 52) - 1)) != 0


class CubeSpace(object):
    """product of: the carried W tuples and the tuples of each group"""

    def __init__(self, wtuples, grouptuples):
        self.parts = [wtuples] + grouptuples
        self.sizes = [len(p) for p in self.parts]
        self.n = 1
        for s in self.sizes:
            self.n *= s

    def __call__(self, i):
        out = ()
        for p, s in zip(reversed(self.parts), reversed(self.sizes)):
            i, r = divmod(i, s)
            out = p[r] + out
        return out

    def split(self, i):
        idx = []
        for s in reversed(self.sizes):
            i, r = divmod(i, s)
            idx.append(r)
        return idx[::-1]


def tabulate(assumptions, roots, tables, log, use_z3=True, workers=16, solver='z3', limit=LIMIT, extras=(), records=(), special=None):
    """Decide that every root (a Bool 'violation' term) is false for every input
    satisfying the assumptions.  Returns a report dict."""
    t_start = time.time()
    memo = {}
    rep = {'levels': [], 'cubes': 0, 'allsat_queries': 0, 'failures': [], 'inconclusive': [], 'coverage_complete': True}
    nroots = len(roots)
    roots = list(roots) + list(extras)
    resolved = {}       # node id -> var term
    wvars = []          # var terms of carried values
    wnodes = []         # the node ids they stand for
    wtuples = [()]
    wwitness = {(): []}  # carried tuple -> list of (frontier term, value) constraints of one cube producing it
    records = [r for r in records if r.op != 'const']
    recorded = set()
    rep['level_records'] = []
    order0, zone0, frontier0 = analyse(roots + records, {}, records)
    enum = Enumerator(assumptions, list(frontier0.values()), solver)
    level = 0
    group_cache = {}
    try:
        while True:
            level += 1
            pending_rec = [r for r in records if r.id not in recorded]
            order, zone, frontier = analyse(roots + pending_rec, resolved, pending_rec)
            fterms = [t for t in frontier.values() if t.id not in resolved]
            stages = [t for t in order if t.op == 'stage' and zone[t.id] and t.id not in resolved]
            # innermost stages: no other unresolved stage below
            depth = {}
            for t in order:
                if t.id in resolved:
                    depth[t.id] = 0
                    continue
                d = max([depth[a.id] for a in t.args] + [0])
                if t.op == 'stage':
                    d += 1
                depth[t.id] = d
            groups = group_terms(fterms, memo)
            sizes = []
            gtuples = []
            for grp in groups:
                grp.sort(key=lambda t: t.id)
                key = tuple(t.id for t in grp)
                if key not in group_cache:
                    split = [t for t in grp if t.op == 'istage']
                    if split and len(grp) > len(split):
                        tups, complete, info = derive_tuples(grp, enum, workers, log, memo=memo)
                        rep.setdefault('derived', []).append(info)
                    else:
                        tups, complete = enum.tuples(grp)
                    group_cache[key] = (tups, complete)
                    if not complete:
                        rep['coverage_complete'] = False
                        rep['inconclusive'].append('AllSAT of a frontier group did not terminate with unsat (%d tuples so far)' % len(tups))
                tups, complete = group_cache[key]
                gtuples.append(tups)
                sizes.append(len(tups))
            total = len(wtuples)
            for s in sizes:
                total *= s
            maxdepth = max([depth[r.id] for r in roots] + [0])
            inner = [t for t in stages if depth[t.id] == 1] if maxdepth >= 2 else []
            final = total <= limit or not inner
            if final and total > 20 * limit:
                rep['inconclusive'].append('cube space too large (%d) and no stage point to cut at' % total)
                break
            if final:
                use_groups = list(range(len(groups)))
                outs = list(roots)
            else:
                # level variables: the groups touched by the cones of the innermost stages
                cone_f = set()
                for s_ in inner:
                    for t in topo_view([s_], resolved):
                        if t.id in frontier and t.id not in resolved:
                            cone_f.add(t.id)
                use_groups = [i for i, grp in enumerate(groups) if any(t.id in cone_f for t in grp)]
                lvl_f = set(t.id for i in use_groups for t in groups[i]) | set(resolved)
                # level-evaluable zone nodes: all frontier below them is in lvl_f, no deeper stage
                ok = {}
                for t in order:
                    if t.id in resolved:
                        ok[t.id] = True
                    elif not zone[t.id]:
                        ok[t.id] = (t.id in lvl_f) or t.op == 'const' or (t.id not in frontier and all(ok[a.id] for a in t.args))
                    else:
                        ok[t.id] = all(ok[a.id] for a in t.args) and depth[t.id] <= 1
                outs = []
                seen_o = set()
                for p in order:
                    if p.id in resolved or not zone[p.id] or ok[p.id]:
                        continue
                    for a in p.args:
                        # values computed at this level and used above it: staged/zone values, and frontier terms
                        # of the groups consumed here (carried so that later levels stay correlated with them)
                        if ok[a.id] and a.id not in seen_o and a.op != 'const' and a.id not in resolved and (zone[a.id] or a.id in lvl_f):
                            seen_o.add(a.id)
                            outs.append(a)
                for r in roots:
                    if ok[r.id] and r.id not in seen_o:
                        pass
                if not outs:
                    rep['inconclusive'].append('staging found no cut')
                    break
            lvl_fset = set(t.id for i in use_groups for t in groups[i])
            rec_now = [r for r in records if r.id not in recorded and r.id in lvl_fset]
            for r in rec_now:
                recorded.add(r.id)
            n_main = len(outs)
            outs = list(outs) + rec_now
            lvl_groups = [groups[i] for i in use_groups]
            lvl_tuples = [gtuples[i] for i in use_groups]
            # which carried values are still needed after this level
            invars = list(wvars)
            fvars = []
            sub = dict(resolved)
            for grp in lvl_groups:
                for t in grp:
                    v = TM.var('f%d' % t.id, t.sort)
                    sub[t.id] = v
                    fvars.append((t, v))
            invars = wvars + [v for _, v in fvars]
            # table nodes below outs
            tabnodes = []
            for t in topo_sub(outs, sub):
                if t.op == 'table' and t.id not in sub:
                    tv = TM.var('tab%d' % t.id, 64)
                    tabnodes.append((t, tv))
            sub2 = dict(sub)
            tabkeys = []
            for tn, tv in tabnodes:
                tabkeys.append(substitute(tn.args[0], sub2))
                sub2[tn.id] = tv
            outs_sub = [substitute(o, sub2) for o in outs]
            space = CubeSpace(wtuples, lvl_tuples)
            g = _W
            g.clear()
            g.update({'outs': outs, 'outs_sub': outs_sub, 'sub': sub2, 'invars': invars, 'tabnodes': tabnodes, 'tabkeys': tabkeys,
                      'cubes': space, 'tables': tables, 'use_z3': use_z3, 'allvars': invars + [tv for _, tv in tabnodes]})
            n = space.n
            t0 = time.time()
            chunk = max(1, min(2000, n // (workers * 4) + 1))
            ranges = [(i, min(n, i + chunk)) for i in range(0, n, chunk)]
            results = []
            if n < 200 or workers <= 1:
                for rg in ranges:
                    results.extend(eval_chunk(rg))
            else:
                with multiprocessing.Pool(workers) as pool:
                    for part in pool.imap_unordered(eval_chunk, ranges, chunksize=1):
                        results.extend(part)
            rep['cubes'] += n
            lv = {'level': level, 'final': final, 'cubes': n, 'groups': [{'terms': [TM.pp(t, 2) for t in grp][:6], 'tuples': len(tp)} for grp, tp in zip(lvl_groups, lvl_tuples)],
                  'carried': len(wtuples), 'outputs': len(outs), 'eval_s': round(time.time() - t0, 2)}
            log('    level %d%s: %d cubes (%s carried x %s), %d outputs, %.1fs' % (level, ' (final)' if final else '', n, len(wtuples),
                                                                                'x'.join(str(len(tp)) for tp in lvl_tuples), len(outs), time.time() - t0))
            errs = [(ci, e) for ci, vals, e in results if e]
            for ci, e in errs[:5]:
                rep['inconclusive'].append('cube %d: %s' % (ci, e))
            if records or extras:
                rows = []
                for ci, vals, e in results:
                    widx = space.split(ci)[0]
                    rows.append((ci, widx, vals[:n_main], vals[n_main:]))

                def cons_of(ci, space=space, wtuples=wtuples, wwitness=wwitness, nw=len(wvars), fvars=fvars):
                    cube = space(ci)
                    cons = list(wwitness[wtuples[space.split(ci)[0]]])
                    pos = nw
                    for (t, fv) in fvars:
                        cons.append((t, cube[pos]))
                        pos += 1
                    return cons
                rep['level_records'].append({'level': level, 'final': final, 'rec_terms': [r.id for r in rec_now], 'rows': rows,
                                             'wtuples_in': list(wtuples), 'n_main': n_main, 'cons_of': cons_of, 'keep': None, 'space': space,
                                             'fterm_ids': [t.id for t, _ in fvars]})
            if final:
                samples = []
                fails = []
                for ci, vals, e in results:
                    for ri, v in enumerate(vals[:nroots]):
                        if v is not False:
                            fails.append((ci, ri, v))
                lv['failing_cubes'] = len(fails)
                rep['levels'].append(lv)
                # confirm failures by a concrete input
                confirmed = {}
                for ci, ri, v in fails:
                    if ri in confirmed and len(confirmed[ri]) >= 3:
                        continue
                    cube = space(ci)
                    idx = space.split(ci)
                    cons = list(wwitness[wtuples[idx[0]]])
                    pos = len(wvars)
                    for (t, fv) in fvars:
                        cons.append((t, cube[pos]))
                        pos += 1
                    st, model = enum.witness(cons)
                    if st == 'sat':
                        confirmed.setdefault(ri, []).append({'model': model, 'cube': ci, 'value': v})
                    elif st == 'unsat':
                        lv['spurious'] = lv.get('spurious', 0) + 1
                    else:
                        rep['inconclusive'].append('witness query for failing cube %d: %s' % (ci, st))
                rep['failures'] = confirmed
                rep['n_failing_cubes'] = len(fails)
                break
            # next level: distinct output tuples (+ carried values still referenced outside the new cones)
            outs = outs[:n_main]
            newvars = [TM.var('o%d' % o.id, o.sort) for o in outs]
            for o, v in zip(outs, newvars):
                resolved[o.id] = v
            # carried values still referenced outside the newly resolved cones
            order2 = topo_view(roots, resolved)
            live = set(t.id for t in order2)
            keep = [i for i, nid in enumerate(wnodes) if nid in live]
            if rep['level_records'] and rep['level_records'][-1]['level'] == level:
                rep['level_records'][-1]['keep'] = keep
            neww = {}
            for ci, vals, e in results:
                cube = space(ci)
                key = tuple(cube[i] for i in keep) + tuple(vals[:n_main])
                if key not in neww:
                    idx = space.split(ci)
                    cons = list(wwitness[wtuples[idx[0]]])
                    pos = len(wvars)
                    for (t, fv) in fvars:
                        cons.append((t, cube[pos]))
                        pos += 1
                    neww[key] = cons
            wvars = [wvars[i] for i in keep] + newvars
            wnodes = [wnodes[i] for i in keep] + [o.id for o in outs]
            wtuples = list(neww.keys())
            wwitness = neww
            lv['distinct_outputs'] = len(wtuples)
            rep['levels'].append(lv)
            log('      -> %d distinct staged value tuples' % len(wtuples))
            if len(wtuples) > 20000:
                rep['inconclusive'].append('too many staged values (%d)' % len(wtuples))
                break
        if special and not rep['inconclusive']:
            special(rep, enum)
    finally:
        rep['allsat_queries'] = enum.queries
        rep['allsat_s'] = round(enum.time, 2)
        rep['groups_enumerated'] = len(group_cache)
        rep['solver_errors'] = list(enum.s.errors)
        enum.close()
    rep['wall_s'] = round(time.time() - t_start, 2)
    return rep


def substitute(t, sub):
    """rebuild t with nodes in sub replaced by their variables (no rewriting besides the constructors')"""
    memo = {}

    def go(x):
        r = memo.get(x.id)
        if r is not None:
            return r
        if x.id in sub:
            r = sub[x.id]
        elif not x.args:
            r = x
        else:
            na = tuple(go(a) for a in x.args)
            if all(p is q for p, q in zip(na, x.args)):
                r = x
            elif x.op == 'and':
                r = TM.And(*na)
            elif x.op == 'or':
                r = TM.Or(*na)
            elif x.op == 'not':
                r = TM.Not(na[0])
            else:
                r = TM.mk(x.op, na, x.sort, x.val)
        memo[x.id] = r
        return r
    return go(t)
