#!/usr/bin/env python3
"""setup step: translator validation.  The repository's own test vectors (and random objects) are
pushed through the real compiled code (native replay of a harness that observes scores, vector and
parse results) and through the symbolic encoding evaluated on the same concrete inputs; any
difference fails setup."""
import json
import os
import random
import re
import struct
import subprocess
import sys
import tempfile
HERE = os.path.dirname(os.path.abspath(__file__))
sys.path.insert(0, HERE)
import engine
import terms as TM
import check as CK

VECTORS = {
    'h20': ['AV:N/AC:L/Au:N/C:N/I:N/A:C', 'AV:N/AC:L/Au:N/C:C/I:C/A:C/E:F/RL:OF/RC:C', 'AV:L/AC:H/Au:N/C:C/I:C/A:C/E:POC/RL:OF/RC:C/CDP:H/TD:H/CR:M/IR:M/AR:L', 'AV:A/AC:M/Au:S/C:P/I:P/A:N/CDP:LM/TD:M/CR:H/IR:ND/AR:L'],
    'h30': ['CVSS:3.0/AV:N/AC:L/PR:N/UI:N/S:U/C:H/I:H/A:H', 'CVSS:3.0/AV:N/AC:H/PR:L/UI:R/S:C/C:L/I:L/A:N/E:F/RL:O/RC:R', 'CVSS:3.0/AV:P/AC:L/PR:H/UI:N/S:C/C:H/I:L/A:H/E:U/RL:W/RC:U/CR:H/IR:L/AR:M/MAV:A/MAC:H/MPR:L/MUI:R/MS:U/MC:L/MI:H/MA:N'],
    'h31': ['CVSS:3.1/AV:N/AC:L/PR:N/UI:N/S:C/C:H/I:H/A:H', 'CVSS:3.1/AV:L/AC:H/PR:H/UI:R/S:U/C:N/I:L/A:L/E:P/RL:T/RC:C', 'CVSS:3.1/AV:A/AC:L/PR:L/UI:N/S:C/C:H/I:H/A:L/E:H/RL:U/RC:R/CR:M/IR:H/AR:L/MAV:N/MAC:L/MPR:N/MUI:N/MS:C/MC:H/MI:N/MA:L'],
    'h40': ['CVSS:4.0/AV:N/AC:L/AT:N/PR:N/UI:N/VC:H/VI:H/VA:H/SC:H/SI:H/SA:H', 'CVSS:4.0/AV:A/AC:H/AT:P/PR:L/UI:P/VC:L/VI:N/VA:H/SC:N/SI:L/SA:N/E:P', 'CVSS:4.0/AV:L/AC:L/AT:N/PR:H/UI:A/VC:N/VI:L/VA:L/SC:H/SI:N/SA:L/E:U/CR:L/IR:M/AR:H/MAV:N/MAC:H/MVC:H/MSI:S/MSA:L/S:P/AU:Y/R:I/V:C/RE:M/U:Amber'],
}


def main():
    rnd = random.Random(int(os.environ.get('VERIF_SEED', '0') or 0))
    tmp = tempfile.mkdtemp(prefix='gosmt_selftest_')
    subprocess.run([os.path.join(engine.VERIF, 'harness', 'gen.sh')], check=True)
    hf = CK.harness_functions()
    CK.write_registry(hf)
    exe = CK.build_replayer(tmp)
    bad = 0
    n = 0
    for pkg, vecs in VECTORS.items():
        dump = engine.dump(['./' + pkg], out=os.path.join(tmp, pkg + '.json'))
        prog = engine.load_program(dump)
        fname = 'verifharness/%s.Selftest' % pkg
        if fname not in prog.funcs:
            print('no Selftest harness in', pkg)
            bad += 1
            continue
        maxlen = 200
        inputs = list(vecs)
        # one-byte mutants of the repository's vectors
        for v in vecs:
            for _ in range(4):
                i = rnd.randrange(len(v))
                inputs.append(v[:i] + rnd.choice('/:XNHLA ') + v[i + 1:])
        for s in inputs:
            ex = engine.run_harness(prog, fname, params={'SELF_N': maxlen}, concrete={'s': s.encode()})
            obs = {nm: v for nm, v, g in ex.observed if g is TM.TRUE}
            model = {'s_len': len(s)}
            for i, ch in enumerate(s.encode()):
                model['s_b%d' % i] = ch
            path = os.path.join(tmp, 'm.json')
            json.dump({'harness': fname, 'values': dict(model, param_SELF_N=maxlen), 'tables': {}}, open(path, 'w'))
            r = subprocess.run([exe, path], stdout=subprocess.PIPE, stderr=subprocess.STDOUT, universal_newlines=True)
            native = dict(re.findall(r'observed (\w+) = (.*)', r.stdout))
            if set(native) != set(obs):
                bad += 1
                print('MISMATCH %s input %r: observed sets differ: native %s encoding %s' % (pkg, s, sorted(native), sorted(obs)))
                continue
            for nm, term in obs.items():
                if not isinstance(term, TM.T) or term.op != 'const':
                    bad += 1
                    print('MISMATCH %s input %r: %s is not concrete in the encoding' % (pkg, s, nm))
                    continue
                if term.sort == 'F':
                    same = float(native[nm]) == TM.fval(term)
                elif term.sort == 'B':
                    same = native[nm] == ('true' if term.val else 'false')
                else:
                    same = native[nm] == str(TM.signed(term.val, term.sort))
                n += 1
                if not same:
                    bad += 1
                    print('MISMATCH %s input %r: %s native=%r encoding=%r' % (pkg, s, nm, native.get(nm), term))
    print('translator validation: %d observations compared, %d mismatches' % (n, bad))
    import shutil
    shutil.rmtree(tmp, ignore_errors=True)
    sys.exit(1 if bad else 0)


if __name__ == '__main__':
    main()
