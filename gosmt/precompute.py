#!/usr/bin/env python3
"""setup step: exact specification score table of all 15,116,544 v4.0 effective classes (cached)"""
import os
import sys
HERE = os.path.dirname(os.path.abspath(__file__))
sys.path.insert(0, HERE)
import numpy as np
import handlers
rows = np.zeros((1, 15), dtype=np.int64)
r = handlers.spec_scores_v4(rows, 16, print)
print('v4 specification table ready; all-most-severe class scores', int(r[0]) / 10.0)
