"""Long-lived solver processes speaking SMT-LIB2 on stdin/stdout."""
import os
import re
import select
import subprocess
import time

SOLVERS = {
    'z3': ['z3', '-in'],
    'z3new': ['z3-new', '-in'],
    'cvc5': ['cvc5', '--incremental', '--produce-models', '--lang', 'smt2'],
}


class SolverError(Exception):
    pass


class Solver(object):
    def __init__(self, kind='z3', timeout_s=600, logic=None, memory_mb=12000):
        self.kind = kind
        self.timeout_s = timeout_s
        cmd = list(SOLVERS[kind])
        if kind in ('z3', 'z3new'):
            cmd += ['-t:%d' % int(timeout_s * 1000), '-memory:%d' % memory_mb]
        else:
            cmd += ['--tlimit-per=%d' % int(timeout_s * 1000)]
        self.p = subprocess.Popen(cmd, stdin=subprocess.PIPE, stdout=subprocess.PIPE, stderr=subprocess.STDOUT, bufsize=0)
        self.buf = b''
        self.time = 0.0
        self.queries = 0
        self.send('(set-option :produce-models true)')
        self.send('(set-logic %s)' % (logic or 'ALL'))
        self.errors = []

    def send(self, text):
        self.p.stdin.write((text + '\n').encode())

    def _readline(self, deadline):
        while b'\n' not in self.buf:
            left = deadline - time.time()
            if left <= 0:
                return None
            r, _, _ = select.select([self.p.stdout], [], [], min(left, 1.0))
            if r:
                chunk = os.read(self.p.stdout.fileno(), 65536)
                if not chunk:
                    return None
                self.buf += chunk
        line, self.buf = self.buf.split(b'\n', 1)
        return line.decode(errors='replace')

    def _read_sexp(self, deadline):
        """read one balanced s-expression (or atom line)"""
        text = ''
        depth = 0
        started = False
        while True:
            line = self._readline(deadline)
            if line is None:
                return None
            text += line + '\n'
            for ch in line:
                if ch == '(':
                    depth += 1
                    started = True
                elif ch == ')':
                    depth -= 1
            if line.strip() and depth <= 0:
                return text.strip()

    def sync(self, extra=30):
        """make sure everything sent so far was parsed; collect errors"""
        tok = 'sync%d' % self.queries
        self.send('(echo "%s")' % tok)
        deadline = time.time() + self.timeout_s + extra
        while True:
            line = self._readline(deadline)
            if line is None:
                raise SolverError('solver did not answer (sync)')
            if tok in line:
                return
            if '(error' in line:
                self.errors.append(line)

    def check(self, assertion=None, want_model=False, vars_=None):
        """push; assert; check-sat; [get-value]; pop.  Returns (status, model dict).
        status in 'sat','unsat','unknown'; any solver error -> 'unknown'"""
        t0 = time.time()
        self.queries += 1
        self.send('(push 1)')
        if assertion is not None:
            self.send('(assert %s)' % assertion)
        self.send('(check-sat)')
        deadline = time.time() + self.timeout_s + 30
        status = None
        while True:
            line = self._readline(deadline)
            if line is None:
                status = 'unknown'
                self.errors.append('no answer / timeout')
                self.kill()
                self.time += time.time() - t0
                return status, None
            line = line.strip()
            if line in ('sat', 'unsat', 'unknown'):
                status = line
                break
            if '(error' in line:
                self.errors.append(line)
                status = 'unknown'
                # keep reading until the check-sat answer arrives
            elif line.startswith('timeout'):
                status = 'unknown'
                break
        if self.errors and status != 'unknown':
            status = 'unknown'
        model = None
        if status == 'sat' and want_model and vars_:
            model = {}
            names = list(vars_)
            for i in range(0, len(names), 200):
                chunk = names[i:i + 200]
                self.send('(get-value (%s))' % ' '.join(chunk))
                txt = self._read_sexp(deadline)
                if txt is None:
                    break
                model.update(parse_values(txt))
        self.send('(pop 1)')
        self.time += time.time() - t0
        return status, model

    def kill(self):
        try:
            self.p.kill()
        except Exception:
            pass

    def close(self):
        try:
            self.send('(exit)')
            self.p.stdin.close()
            self.p.wait(timeout=5)
        except Exception:
            self.kill()


_val_re = re.compile(r'\(\s*([^\s()]+)\s+((?:#x[0-9a-fA-F]+)|(?:#b[01]+)|true|false|\(fp\s+#[bx][0-9a-fA-F]+\s+#[bx][0-9a-fA-F]+\s+#[bx][0-9a-fA-F]+\)|\(_\s+[+-]?(?:zero|oo|NaN)\s+\d+\s+\d+\)|\(_\s+bv\d+\s+\d+\))\s*\)')


def parse_values(txt):
    out = {}
    for m in _val_re.finditer(txt):
        nm, v = m.group(1), m.group(2)
        if v == 'true':
            out[nm] = True
        elif v == 'false':
            out[nm] = False
        elif v.startswith('#x'):
            out[nm] = int(v[2:], 16)
        elif v.startswith('#b'):
            out[nm] = int(v[2:], 2)
        elif v.startswith('(fp'):
            parts = v.strip('()').split()

            def tobits(p):
                return p[2:] if p[1] == 'b' else format(int(p[2:], 16), '0%db' % (4 * (len(p) - 2)))
            bits = tobits(parts[1]) + tobits(parts[2]) + tobits(parts[3])
            out[nm] = ('F', int(bits, 2))
        elif v.startswith('(_ bv'):
            out[nm] = int(v.split()[1][2:])
        else:
            kind = v.split()[1]
            bits = {'+zero': 0, '-zero': 1 << 63, '+oo': 0x7FF0000000000000, '-oo': 0xFFF0000000000000, 'NaN': 0x7FF8000000000001}[kind]
            out[nm] = ('F', bits)
    return out
