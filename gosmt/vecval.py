"""Vectorised (numpy) evaluation of the integer/Boolean part of a term DAG over
many cubes at once.  Used to derive the value tuples of a coarse frontier
(MacroVector levels, distance sums ...) from the product of the solver-
enumerated tuples of a finer frontier (per-metric bit-field terms)."""
import numpy as np

import terms as TM

U64 = np.uint64


def _mask(w):
    return U64((1 << w) - 1) if w < 64 else U64(0xFFFFFFFFFFFFFFFF)


def _signed(a, w):
    if w == 64:
        return a.view(np.int64)
    sh = U64(64 - w)
    return (a << sh).view(np.int64) >> np.int64(64 - w)


def evaluate(roots, env, n):
    """env: var name -> numpy array (bool for 'B', uint64 otherwise); returns list of arrays"""
    order = TM.topo(roots)
    uses = {}
    for t in order:
        for a in t.args:
            uses[a.id] = uses.get(a.id, 0) + 1
    for r in roots:
        uses[r.id] = uses.get(r.id, 0) + 1
    vals = {}
    for t in order:
        op = t.op
        if op == 'const':
            if t.sort == 'B':
                v = np.full(n, bool(t.val))
            else:
                v = np.full(n, t.val, dtype=U64)
        elif op == 'var':
            v = env[t.val]
        else:
            a = [vals[x.id] for x in t.args]
            w = t.sort if isinstance(t.sort, int) else None
            if op == 'and':
                v = a[0]
                for x in a[1:]:
                    v = v & x
            elif op == 'or':
                v = a[0]
                for x in a[1:]:
                    v = v | x
            elif op == 'not':
                v = ~a[0]
            elif op == 'ite':
                v = np.where(a[0], a[1], a[2])
            elif op == 'eq':
                v = a[0] == a[1]
            elif op in ('name', 'istage', 'stage'):
                v = a[0]
            elif op == 'bvadd':
                v = (a[0] + a[1]) & _mask(w)
            elif op == 'bvsub':
                v = (a[0] - a[1]) & _mask(w)
            elif op == 'bvmul':
                v = (a[0] * a[1]) & _mask(w)
            elif op == 'bvand':
                v = a[0] & a[1]
            elif op == 'bvor':
                v = a[0] | a[1]
            elif op == 'bvxor':
                v = a[0] ^ a[1]
            elif op == 'bvnot':
                v = (~a[0]) & _mask(w)
            elif op == 'bvneg':
                v = (U64(0) - a[0]) & _mask(w)
            elif op == 'bvshl':
                sh = np.minimum(a[1], U64(63))
                v = np.where(a[1] < U64(w), (a[0] << sh) & _mask(w), U64(0))
            elif op == 'bvlshr':
                sh = np.minimum(a[1], U64(63))
                v = np.where(a[1] < U64(w), a[0] >> sh, U64(0))
            elif op == 'bvashr':
                sh = np.minimum(a[1], U64(w - 1)).astype(np.int64)
                v = (_signed(a[0], t.args[0].sort) >> sh).view(U64) & _mask(w)
            elif op == 'bvudiv':
                z = a[1] == 0
                v = np.where(z, _mask(w), a[0] // np.where(z, U64(1), a[1]))
            elif op == 'bvurem':
                z = a[1] == 0
                v = np.where(z, a[0], a[0] % np.where(z, U64(1), a[1]))
            elif op in ('bvsdiv', 'bvsrem'):
                ws = t.args[0].sort
                x, y = _signed(a[0], ws), _signed(a[1], ws)
                z = y == 0
                y1 = np.where(z, np.int64(1), y)
                q = np.abs(x) // np.abs(y1)
                q = np.where((x < 0) != (y1 < 0), -q, q)
                if op == 'bvsdiv':
                    v = np.where(z, np.where(x >= 0, np.int64(-1), np.int64(1)), q).view(U64) & _mask(w)
                else:
                    r = x - q * y1
                    v = np.where(z, x, r).view(U64) & _mask(w)
            elif op == 'ult':
                v = a[0] < a[1]
            elif op == 'ule':
                v = a[0] <= a[1]
            elif op == 'slt':
                ws = t.args[0].sort
                v = _signed(a[0], ws) < _signed(a[1], ws)
            elif op == 'sle':
                ws = t.args[0].sort
                v = _signed(a[0], ws) <= _signed(a[1], ws)
            elif op == 'zext':
                v = a[0]
            elif op == 'sext':
                v = _signed(a[0], t.args[0].sort).view(U64) & _mask(w)
            elif op == 'extract':
                hi, lo = t.val
                v = (a[0] >> U64(lo)) & _mask(hi - lo + 1)
            else:
                raise ValueError('vecval: unsupported op ' + op)
            for x in t.args:
                uses[x.id] -= 1
                if uses[x.id] == 0 and x.id in vals and x.op != 'var':
                    del vals[x.id]
        vals[t.id] = v
    return [vals[r.id] for r in roots]
