// ssajson loads Go packages (the harness module, which replaces
// github.com/pandatix/go-cvss by /repo's working tree), builds go/ssa and
// dumps every function reachable from the requested entry points as JSON.
// The Python symbolic executor (gosmt/*.py) consumes this dump; nothing else
// of the Go toolchain is involved in the encoding.
package main

import (
	"encoding/json"
	"flag"
	"fmt"
	"go/constant"
	"go/token"
	"go/types"
	"os"
	"sort"
	"strings"

	"golang.org/x/tools/go/packages"
	"golang.org/x/tools/go/ssa"
	"golang.org/x/tools/go/ssa/ssautil"
)

type J = map[string]any

var (
	typeTab = map[string]J{}
	fset    *token.FileSet
)

func typeID(t types.Type) string {
	if t == nil {
		return ""
	}
	if a, ok := t.(*types.Alias); ok {
		return typeID(types.Unalias(a))
	}
	var id string
	switch tt := t.(type) {
	// ids of composite types are built from the (unaliased) ids of their parts, so that
	// *Alias and *Target are the same type for the executor
	case *types.Pointer:
		id = "*" + typeID(tt.Elem())
	case *types.Slice:
		id = "[]" + typeID(tt.Elem())
	case *types.Array:
		id = fmt.Sprintf("[%d]%s", tt.Len(), typeID(tt.Elem()))
	default:
		id = types.TypeString(t, nil)
	}
	if _, ok := typeTab[id]; ok {
		return id
	}
	typeTab[id] = J{} // placeholder against recursion
	var d J
	switch tt := t.(type) {
	case *types.Basic:
		d = J{"k": "basic", "name": tt.Name()}
	case *types.Named:
		d = J{"k": "named", "name": id, "under": typeID(tt.Underlying())}
		ms := []string{}
		for i := 0; i < tt.NumMethods(); i++ {
			ms = append(ms, tt.Method(i).Name())
		}
		d["methods"] = ms
	case *types.Alias:
		d = J{"k": "named", "name": id, "under": typeID(types.Unalias(tt).Underlying()), "methods": []string{}}
	case *types.Pointer:
		d = J{"k": "ptr", "elem": typeID(tt.Elem())}
	case *types.Slice:
		d = J{"k": "slice", "elem": typeID(tt.Elem())}
	case *types.Array:
		d = J{"k": "array", "elem": typeID(tt.Elem()), "len": tt.Len()}
	case *types.Struct:
		fs := []J{}
		for i := 0; i < tt.NumFields(); i++ {
			fs = append(fs, J{"name": tt.Field(i).Name(), "type": typeID(tt.Field(i).Type())})
		}
		d = J{"k": "struct", "fields": fs}
	case *types.Tuple:
		es := []string{}
		for i := 0; i < tt.Len(); i++ {
			es = append(es, typeID(tt.At(i).Type()))
		}
		d = J{"k": "tuple", "elems": es}
	case *types.Signature:
		ps := []string{}
		for i := 0; i < tt.Params().Len(); i++ {
			ps = append(ps, typeID(tt.Params().At(i).Type()))
		}
		rs := []string{}
		for i := 0; i < tt.Results().Len(); i++ {
			rs = append(rs, typeID(tt.Results().At(i).Type()))
		}
		d = J{"k": "sig", "params": ps, "results": rs}
	case *types.Interface:
		ms := []string{}
		for i := 0; i < tt.NumMethods(); i++ {
			ms = append(ms, tt.Method(i).Name())
		}
		d = J{"k": "iface", "methods": ms}
	case *types.Map:
		d = J{"k": "map", "key": typeID(tt.Key()), "elem": typeID(tt.Elem())}
	case *types.Chan:
		d = J{"k": "chan", "elem": typeID(tt.Elem())}
	default:
		d = J{"k": "other", "name": id}
	}
	typeTab[id] = d
	return id
}

func pos(p token.Pos) string {
	if !p.IsValid() {
		return ""
	}
	q := fset.Position(p)
	return fmt.Sprintf("%s:%d:%d", q.Filename, q.Line, q.Column)
}

func funcName(f *ssa.Function) string {
	return f.String()
}

var (
	queue   []*ssa.Function
	seen    = map[*ssa.Function]bool{}
	globals = map[string]J{}
	descend func(f *ssa.Function) bool
)

func enqueue(f *ssa.Function) {
	if f == nil || seen[f] {
		return
	}
	seen[f] = true
	queue = append(queue, f)
}

func val(v ssa.Value) J {
	switch x := v.(type) {
	case nil:
		return nil
	case *ssa.Const:
		c := J{"k": "const", "t": typeID(x.Type())}
		if x.Value == nil {
			c["nil"] = true
			return c
		}
		switch x.Value.Kind() {
		case constant.Bool:
			c["v"] = constant.BoolVal(x.Value)
		case constant.String:
			// bytes as list of ints: JSON strings are not byte-safe
			s := constant.StringVal(x.Value)
			bs := make([]int, len(s))
			for i := 0; i < len(s); i++ {
				bs[i] = int(s[i])
			}
			c["s"] = bs
		case constant.Int:
			c["i"] = x.Value.ExactString()
		case constant.Float:
			f, _ := constant.Float64Val(x.Value)
			c["f"] = fmt.Sprintf("%x", f) // hex float, exact
			if b, ok := x.Type().Underlying().(*types.Basic); ok && b.Info()&types.IsInteger != 0 {
				c["i"] = x.Value.ExactString()
			}
		default:
			c["unsupported"] = x.Value.String()
		}
		return c
	case *ssa.Global:
		n := x.String()
		if _, ok := globals[n]; !ok {
			globals[n] = J{"type": typeID(x.Type()), "pkg": x.Pkg.Pkg.Path(), "pos": pos(x.Pos())}
		}
		return J{"k": "global", "n": n, "t": typeID(x.Type())}
	case *ssa.Function:
		enqueue(x)
		return J{"k": "func", "n": funcName(x), "t": typeID(x.Type())}
	case *ssa.Builtin:
		return J{"k": "builtin", "n": x.Name()}
	case *ssa.Parameter:
		return J{"k": "param", "n": x.Name(), "t": typeID(x.Type())}
	case *ssa.FreeVar:
		return J{"k": "freevar", "n": x.Name(), "t": typeID(x.Type())}
	default:
		return J{"k": "local", "n": v.Name(), "t": typeID(v.Type())}
	}
}

func vals(vs []ssa.Value) []J {
	r := make([]J, len(vs))
	for i, v := range vs {
		r[i] = val(v)
	}
	return r
}

func call(c *ssa.CallCommon) J {
	d := J{"args": vals(c.Args)}
	if c.IsInvoke() {
		d["invoke"] = c.Method.Name()
		d["recv"] = val(c.Value)
	} else {
		d["fn"] = val(c.Value)
		if sc := c.StaticCallee(); sc != nil {
			d["static"] = funcName(sc)
		}
	}
	return d
}

func instr(in ssa.Instruction) J {
	d := J{"pos": pos(in.Pos())}
	if v, ok := in.(ssa.Value); ok {
		d["n"] = v.Name()
		d["t"] = typeID(v.Type())
	}
	switch x := in.(type) {
	case *ssa.Alloc:
		d["op"] = "alloc"
		d["heap"] = x.Heap
		d["comment"] = x.Comment
		d["elem"] = typeID(x.Type().Underlying().(*types.Pointer).Elem())
	case *ssa.BinOp:
		d["op"] = "binop"
		d["tok"] = x.Op.String()
		d["x"] = val(x.X)
		d["y"] = val(x.Y)
	case *ssa.UnOp:
		d["op"] = "unop"
		d["tok"] = x.Op.String()
		d["x"] = val(x.X)
		d["commaok"] = x.CommaOk
	case *ssa.Call:
		d["op"] = "call"
		d["call"] = call(&x.Call)
	case *ssa.Defer:
		d["op"] = "defer"
		d["call"] = call(&x.Call)
	case *ssa.Go:
		d["op"] = "go"
		d["call"] = call(&x.Call)
	case *ssa.ChangeType:
		d["op"] = "changetype"
		d["x"] = val(x.X)
	case *ssa.Convert:
		d["op"] = "convert"
		d["x"] = val(x.X)
	case *ssa.MultiConvert:
		d["op"] = "multiconvert"
		d["x"] = val(x.X)
	case *ssa.ChangeInterface:
		d["op"] = "changeinterface"
		d["x"] = val(x.X)
	case *ssa.SliceToArrayPointer:
		d["op"] = "slicetoarrayptr"
		d["x"] = val(x.X)
	case *ssa.MakeInterface:
		d["op"] = "makeinterface"
		d["x"] = val(x.X)
	case *ssa.MakeClosure:
		d["op"] = "makeclosure"
		d["fn"] = val(x.Fn)
		d["bindings"] = vals(x.Bindings)
	case *ssa.MakeMap:
		d["op"] = "makemap"
	case *ssa.MakeChan:
		d["op"] = "makechan"
	case *ssa.MakeSlice:
		d["op"] = "makeslice"
		d["len"] = val(x.Len)
		d["cap"] = val(x.Cap)
	case *ssa.Slice:
		d["op"] = "slice"
		d["x"] = val(x.X)
		d["low"] = val(x.Low)
		d["high"] = val(x.High)
		d["max"] = val(x.Max)
	case *ssa.FieldAddr:
		d["op"] = "fieldaddr"
		d["x"] = val(x.X)
		d["field"] = x.Field
	case *ssa.Field:
		d["op"] = "field"
		d["x"] = val(x.X)
		d["field"] = x.Field
	case *ssa.IndexAddr:
		d["op"] = "indexaddr"
		d["x"] = val(x.X)
		d["index"] = val(x.Index)
	case *ssa.Index:
		d["op"] = "index"
		d["x"] = val(x.X)
		d["index"] = val(x.Index)
	case *ssa.Lookup:
		d["op"] = "lookup"
		d["x"] = val(x.X)
		d["index"] = val(x.Index)
		d["commaok"] = x.CommaOk
	case *ssa.Select:
		d["op"] = "select"
	case *ssa.Range:
		d["op"] = "range"
		d["x"] = val(x.X)
	case *ssa.Next:
		d["op"] = "next"
		d["iter"] = val(x.Iter)
		d["isstring"] = x.IsString
	case *ssa.TypeAssert:
		d["op"] = "typeassert"
		d["x"] = val(x.X)
		d["asserted"] = typeID(x.AssertedType)
		d["commaok"] = x.CommaOk
	case *ssa.Extract:
		d["op"] = "extract"
		d["tuple"] = val(x.Tuple)
		d["index"] = x.Index
	case *ssa.Phi:
		d["op"] = "phi"
		d["edges"] = vals(x.Edges)
		d["comment"] = x.Comment
	case *ssa.Jump:
		d["op"] = "jump"
	case *ssa.If:
		d["op"] = "if"
		d["cond"] = val(x.Cond)
	case *ssa.Return:
		d["op"] = "return"
		d["results"] = vals(x.Results)
	case *ssa.RunDefers:
		d["op"] = "rundefers"
	case *ssa.Panic:
		d["op"] = "panic"
		d["x"] = val(x.X)
	case *ssa.Send:
		d["op"] = "send"
	case *ssa.Store:
		d["op"] = "store"
		d["addr"] = val(x.Addr)
		d["val"] = val(x.Val)
	case *ssa.MapUpdate:
		d["op"] = "mapupdate"
	case *ssa.DebugRef:
		return nil
	default:
		d["op"] = "unknown"
		d["go"] = fmt.Sprintf("%T", in)
	}
	return d
}

func dumpFunc(f *ssa.Function) J {
	d := J{"name": funcName(f), "pos": pos(f.Pos()), "synthetic": f.Synthetic}
	if f.Pkg != nil {
		d["pkg"] = f.Pkg.Pkg.Path()
	} else if f.Object() != nil && f.Object().Pkg() != nil {
		d["pkg"] = f.Object().Pkg().Path()
	}
	d["sig"] = typeID(f.Signature)
	ps := []J{}
	for _, p := range f.Params {
		ps = append(ps, J{"n": p.Name(), "t": typeID(p.Type())})
	}
	d["params"] = ps
	fv := []J{}
	for _, p := range f.FreeVars {
		fv = append(fv, J{"n": p.Name(), "t": typeID(p.Type())})
	}
	d["freevars"] = fv
	if f.Blocks == nil || !descend(f) {
		d["external"] = true
		return d
	}
	if f.Recover != nil {
		d["recover"] = f.Recover.Index
	}
	bs := []J{}
	for _, b := range f.Blocks {
		ins := []J{}
		for _, in := range b.Instrs {
			if j := instr(in); j != nil {
				ins = append(ins, j)
			}
		}
		succs := []int{}
		for _, s := range b.Succs {
			succs = append(succs, s.Index)
		}
		preds := []int{}
		for _, s := range b.Preds {
			preds = append(preds, s.Index)
		}
		bj := J{"index": b.Index, "comment": b.Comment, "instrs": ins, "succs": succs, "preds": preds}
		if id := b.Idom(); id != nil {
			bj["idom"] = id.Index
		}
		bs = append(bs, bj)
	}
	d["blocks"] = bs
	return d
}

func main() {
	dir := flag.String("dir", ".", "directory of the harness module")
	out := flag.String("o", "-", "output file")
	entries := flag.String("entries", "", "comma-separated entry functions (pkgpath.Func); empty = every func of the pattern packages")
	descendPkgs := flag.String("descend", "strings", "comma-separated extra package paths whose function bodies are dumped (module packages always are)")
	flag.Parse()
	patterns := flag.Args()
	if len(patterns) == 0 {
		patterns = []string{"./..."}
	}
	cfg := &packages.Config{Mode: packages.LoadAllSyntax | packages.NeedModule, Dir: *dir, Env: append(os.Environ(), "GOWORK=off", "GOFLAGS=-mod=mod", "GOPROXY=off", "GOSUMDB=off", "GOTOOLCHAIN=local")}
	initial, err := packages.Load(cfg, patterns...)
	if err != nil {
		fmt.Fprintln(os.Stderr, "load:", err)
		os.Exit(2)
	}
	if packages.PrintErrors(initial) > 0 {
		os.Exit(2)
	}
	fset = initial[0].Fset
	prog, pkgs := ssautil.AllPackages(initial, ssa.InstantiateGenerics|ssa.SanityCheckFunctions)
	prog.Build()

	extra := map[string]bool{}
	for _, p := range strings.Split(*descendPkgs, ",") {
		if p != "" {
			extra[p] = true
		}
	}
	modpkgs := map[string]bool{}
	packages.Visit(initial, nil, func(p *packages.Package) {
		if p.Module != nil && (p.Module.Main || p.Module.Replace != nil) {
			modpkgs[p.PkgPath] = true
		}
	})
	descend = func(f *ssa.Function) bool {
		var path string
		if f.Pkg != nil {
			path = f.Pkg.Pkg.Path()
		} else if f.Object() != nil && f.Object().Pkg() != nil {
			path = f.Object().Pkg().Path()
		} else if f.Parent() != nil && f.Parent().Pkg != nil {
			path = f.Parent().Pkg.Pkg.Path()
		}
		return modpkgs[path] || extra[path]
	}

	want := map[string]bool{}
	for _, e := range strings.Split(*entries, ",") {
		if e != "" {
			want[e] = true
		}
	}
	pkgInfo := J{}
	for _, p := range pkgs {
		if p == nil {
			continue
		}
		for _, m := range p.Members {
			if f, ok := m.(*ssa.Function); ok {
				if len(want) == 0 || want[f.String()] {
					enqueue(f)
				}
			}
		}
	}
	// package initialisers of module packages are always dumped
	for _, p := range prog.AllPackages() {
		if modpkgs[p.Pkg.Path()] {
			if f := p.Func("init"); f != nil {
				enqueue(f)
			}
			gl := []string{}
			for _, m := range p.Members {
				if g, ok := m.(*ssa.Global); ok {
					val(g)
					gl = append(gl, g.String())
				}
			}
			sort.Strings(gl)
			imps := []string{}
			for _, ip := range p.Pkg.Imports() {
				imps = append(imps, ip.Path())
			}
			pkgInfo[p.Pkg.Path()] = J{"globals": gl, "imports": imps}
		}
	}
	funcs := J{}
	for len(queue) > 0 {
		f := queue[0]
		queue = queue[1:]
		funcs[funcName(f)] = dumpFunc(f)
		for _, af := range f.AnonFuncs {
			enqueue(af)
		}
	}
	// methods of module named types (needed for interface invoke resolution)
	methods := J{}
	for _, p := range prog.AllPackages() {
		if !modpkgs[p.Pkg.Path()] {
			continue
		}
		for _, m := range p.Members {
			t, ok := m.(*ssa.Type)
			if !ok {
				continue
			}
			for _, recv := range []types.Type{t.Type(), types.NewPointer(t.Type())} {
				ms := prog.MethodSets.MethodSet(recv)
				tm := J{}
				for i := 0; i < ms.Len(); i++ {
					if fn := prog.MethodValue(ms.At(i)); fn != nil {
						tm[ms.At(i).Obj().Name()] = funcName(fn)
						if _, done := funcs[funcName(fn)]; !done && !seen[fn] {
							seen[fn] = true
							funcs[funcName(fn)] = dumpFunc(fn)
							for len(queue) > 0 {
								f := queue[0]
								queue = queue[1:]
								funcs[funcName(f)] = dumpFunc(f)
							}
						}
					}
				}
				methods[typeID(recv)] = tm
			}
		}
	}
	res := J{"types": typeTab, "funcs": funcs, "globals": globals, "packages": pkgInfo, "methods": methods}
	var w *os.File = os.Stdout
	if *out != "-" {
		w, err = os.Create(*out)
		if err != nil {
			fmt.Fprintln(os.Stderr, err)
			os.Exit(2)
		}
		defer w.Close()
	}
	enc := json.NewEncoder(w)
	if err := enc.Encode(res); err != nil {
		fmt.Fprintln(os.Stderr, err)
		os.Exit(2)
	}
}
