"""Symbolic executor for the go/ssa dump produced by ssajson.

Execution model (DESIGN 3.2): one merged run per harness.  Blocks are visited
in reverse post-order of the loop-collapsed CFG, every block instance has a
guard, phi nodes become ite over edge guards, loops are unrolled until the
header guard folds to false (or an unwinding obligation is emitted), calls are
inlined, memory is a set of typed objects updated by guarded stores, panics
and implicit run-time checks become proof obligations.
"""
import json
import math
import re
import struct
from collections import defaultdict

from terms import *  # noqa
import terms as TM


class Unsupported(Exception):
    pass


class DeadPath(Exception):
    """every alternative of the current block instance violates a run-time check
    (reported as obligations); the instance has no continuation"""
    pass


# ------------------------------------------------------------------ values

class Long(object):
    """content of a string of unknown (large) length: supports only len,
    identity and comparison with short strings"""
    __slots__ = ('id', 'len', 'prefix')

    def __init__(self, id_, len_, prefix=()):
        self.id = id_
        self.len = len_
        self.prefix = prefix   # the first bytes, explicit (the string is longer than the prefix)


class VarS(object):
    """content of a string whose bytes are base[0:len] with a symbolic length
    (a nondeterministic input and its open-ended suffixes)"""
    __slots__ = ('base', 'len')

    def __init__(self, base, len_):
        self.base = base
        self.len = len_


class Str(object):
    __slots__ = ('alts', '_bylen', '_eqmemo')  # alts: [(guard, tuple of BV8 terms | Long | VarS)]

    def __init__(self, alts):
        self.alts = alts
        self._bylen = None
        self._eqmemo = None

    def bylen(self):
        """alternatives of concrete length indexed by length; (dict, [non-concrete alts])"""
        if self._bylen is None:
            d = {}
            other = []
            for a in self.alts:
                if isinstance(a[1], tuple):
                    d.setdefault(len(a[1]), []).append(a)
                else:
                    other.append(a)
            self._bylen = (d, other)
        return self._bylen

    @staticmethod
    def lit(bs):
        return Str([(TRUE, tuple(bv(b, 8) for b in bs))])

    def __repr__(self):
        return 'Str(%s)' % ', '.join('%s:%s' % (pp(g, 2), showbytes(c)) for g, c in self.alts[:6]) + ('...' if len(self.alts) > 6 else '')


def showbytes(c):
    if isinstance(c, Long):
        return '<long%d>' % c.id
    if isinstance(c, VarS):
        return '<var:%d>' % len(c.base)
    return ''.join(chr(b.val) if b.op == 'const' and 32 <= b.val < 127 else '?' for b in c)


class Slc(object):
    __slots__ = ('alts',)  # [(guard, obj|None, off, len, cap)]

    def __init__(self, alts):
        self.alts = alts


class Ptr(object):
    __slots__ = ('alts',)  # [(guard, obj|None, path tuple, cast)]

    def __init__(self, alts):
        self.alts = alts


class Struct(object):
    __slots__ = ('f',)

    def __init__(self, f):
        self.f = f


class Arr(object):
    __slots__ = ('e',)

    def __init__(self, e):
        self.e = e


class Ifc(object):
    __slots__ = ('alts',)  # [(guard, typeid|None, payload)]

    def __init__(self, alts):
        self.alts = alts


class Fn(object):
    __slots__ = ('name', 'bindings')

    def __init__(self, name, bindings=()):
        self.name = name
        self.bindings = bindings


class Rope(object):
    """append-only byte buffer with symbolic capacity: list of (guard, bytes)
    segments; the content is the concatenation of the segments whose guard
    holds"""
    __slots__ = ('segs', 'cap', 'grow', 'checked', 'lenterm')

    def __init__(self, cap, checked=True):
        self.segs = []
        self.cap = cap
        self.grow = []
        self.checked = checked
        self.lenterm = bv(0, 64)


class RopeStr(object):
    """string view of a rope (result of Vector())"""
    __slots__ = ('segs', 'obj')

    def __init__(self, segs, obj):
        self.segs = segs
        self.obj = obj


class Obj(object):
    __slots__ = ('id', 'tid', 'val', 'kind', 'site', 'fn', 'released', 'heap', 'birth')

    def __init__(self, id_, tid, val, kind, site, fn=None, heap=False):
        self.id = id_
        self.tid = tid
        self.val = val
        self.kind = kind
        self.site = site
        self.fn = fn
        self.released = FALSE
        self.heap = heap
        self.birth = None

    def __repr__(self):
        return 'Obj%d<%s>' % (self.id, self.tid)


def content_key(c):
    if isinstance(c, Long):
        return ('L', c.id)
    if isinstance(c, VarS):
        return ('V', tuple(b.id for b in c.base), c.len.id)
    return tuple(b.id for b in c)


def fuse_alts(alts, keyf):
    out = {}
    order = []
    for a in alts:
        g = a[0]
        if g is FALSE:
            continue
        k = keyf(a)
        if k in out:
            o = out[k]
            out[k] = (Or(o[0], g),) + tuple(o[1:])
        else:
            out[k] = a
            order.append(k)
    return [out[k] for k in order]


def str_key(a):
    return content_key(a[1])


def slc_key(a):
    return (a[1].id if a[1] is not None else None, a[2], a[3], a[4])


def ptr_key(a):
    return (a[1].id if a[1] is not None else None, a[2], a[3])


def payload_key(v):
    if v is None:
        return None
    if isinstance(v, T):
        return ('t', v.id)
    if isinstance(v, Ptr):
        return ('p', tuple((g.id,) + ptr_key((g, o, p, c)) for g, o, p, c in v.alts))
    if isinstance(v, Slc):
        return ('s', tuple((a[0].id,) + slc_key(a) for a in v.alts))
    if isinstance(v, Str):
        return ('str', tuple((a[0].id, content_key(a[1])) for a in v.alts))
    return ('o', id(v))


def ifc_key(a):
    return (a[1], payload_key(a[2]))


def merge2(g, a, b):
    """value that is a when g holds and b otherwise"""
    if g is TRUE:
        return a
    if g is FALSE:
        return b
    if a is b:
        return a
    if isinstance(a, T):
        return Ite(g, a, b)
    ng = Not(g)
    if isinstance(a, Str):
        return Str(fuse_alts([(And(g, x[0]), x[1]) for x in a.alts] + [(And(ng, x[0]), x[1]) for x in b.alts], str_key))
    if isinstance(a, Slc):
        return Slc(fuse_alts([(And(g, x[0]),) + tuple(x[1:]) for x in a.alts] + [(And(ng, x[0]),) + tuple(x[1:]) for x in b.alts], slc_key))
    if isinstance(a, Ptr):
        return Ptr(fuse_alts([(And(g, x[0]),) + tuple(x[1:]) for x in a.alts] + [(And(ng, x[0]),) + tuple(x[1:]) for x in b.alts], ptr_key))
    if isinstance(a, Ifc):
        return Ifc(fuse_alts([(And(g, x[0]),) + tuple(x[1:]) for x in a.alts] + [(And(ng, x[0]),) + tuple(x[1:]) for x in b.alts], ifc_key))
    if isinstance(a, Struct):
        return Struct([merge2(g, x, y) for x, y in zip(a.f, b.f)])
    if isinstance(a, Arr):
        return Arr([merge2(g, x, y) for x, y in zip(a.e, b.e)])
    if isinstance(a, tuple):
        return tuple(merge2(g, x, y) for x, y in zip(a, b))
    if a is None or b is None:
        return a if b is None else b
    if isinstance(a, Fn) and isinstance(b, Fn) and a.name == b.name:
        return a
    if isinstance(a, RopeStr) or isinstance(b, RopeStr):
        raise Unsupported('merge of rope strings')
    raise Unsupported('merge of %r / %r' % (type(a), type(b)))


def restrict(v, guard):
    """drop the alternatives of v that cannot hold under guard (the value is
    only used where guard holds)"""
    if guard is TRUE or isinstance(v, T) or v is None:
        return v
    if isinstance(v, (Str, Slc, Ptr, Ifc)):
        if len(v.alts) <= 1:
            return v
        keep = [a for a in v.alts if And(guard, a[0]) is not FALSE]
        if len(keep) == len(v.alts) or not keep:
            return v
        return type(v)(keep)
    if isinstance(v, Struct):
        return Struct([restrict(x, guard) for x in v.f])
    if isinstance(v, Arr):
        return Arr([restrict(x, guard) for x in v.e])
    return v


def merge_many(gvs):
    """gvs: [(guard, value)] with exclusive guards"""
    gvs = [(g, v) for g, v in gvs if g is not FALSE]
    if not gvs:
        return None
    if len(gvs) == 1:
        return gvs[0][1]
    v0 = gvs[0][1]
    if isinstance(v0, (Str, Slc, Ptr, Ifc)):
        cls = type(v0)
        keyf = {Str: str_key, Slc: slc_key, Ptr: ptr_key, Ifc: ifc_key}[cls]
        alts = []
        for g, v in gvs:
            if not isinstance(v, cls):
                raise Unsupported('merge of mixed values')
            for a in v.alts:
                alts.append((And(g, a[0]),) + tuple(a[1:]))
        return cls(fuse_alts(alts, keyf))
    if isinstance(v0, T):
        # the merged value is only used where one of the guards holds: conjuncts common to all
        # guards carry no information there; dropping them keeps terms context-free (same
        # callee, same term, whatever the call site's path condition)
        common = None
        for g, v in gvs:
            ls = TM._lits(g)
            common = ls if common is None else (common & ls)
            if not common:
                break
        if common:
            gvs = [(And(*[l for l in TM._lits(g) if l not in common]), v) for g, v in gvs]
    res = gvs[-1][1]
    for g, v in reversed(gvs[:-1]):
        res = merge2(g, v, res)
    return res


# ------------------------------------------------------------------ program

class Loop(object):
    def __init__(self, header):
        self.header = header
        self.blocks = set([header])
        self.parent = None
        self.items = None
        self.liveouts = []


class Func(object):
    def __init__(self, d):
        self.d = d
        self.name = d['name']
        self.external = d.get('external', False)
        self.params = d['params']
        self.freevars = d.get('freevars', [])
        if not self.external:
            self.blocks = d['blocks']
            self._analyse()

    def _analyse(self):
        bl = self.blocks
        n = len(bl)
        # reverse post-order
        seen = [False] * n
        post = []
        stack = [(0, 0)]
        seen[0] = True
        while stack:
            b, i = stack.pop()
            succs = bl[b]['succs']
            if i < len(succs):
                stack.append((b, i + 1))
                s = succs[i]
                if not seen[s]:
                    seen[s] = True
                    stack.append((s, 0))
            else:
                post.append(b)
        rpo = post[::-1]
        self.rpo = rpo
        pos = {b: i for i, b in enumerate(rpo)}
        reach = set(rpo)

        def dominates(a, b):
            while True:
                if a == b:
                    return True
                nb = bl[b].get('idom')
                if nb is None:
                    return False
                b = nb
        loops = {}
        for u in rpo:
            for h in bl[u]['succs']:
                if h in reach and dominates(h, u):
                    L = loops.get(h)
                    if L is None:
                        L = loops[h] = Loop(h)
                    # body: nodes reaching u without passing h
                    work = [u]
                    while work:
                        x = work.pop()
                        if x in L.blocks:
                            continue
                        L.blocks.add(x)
                        for p in bl[x]['preds']:
                            if p in reach:
                                work.append(p)
        self.loops = loops
        ll = sorted(loops.values(), key=lambda L: len(L.blocks))
        for i, L in enumerate(ll):
            for M in ll[i + 1:]:
                if L.header in M.blocks and M is not L:
                    L.parent = M
                    break
        self.loopof = {}
        for L in ll[::-1]:
            for b in L.blocks:
                self.loopof[b] = L  # innermost wins (assigned last)
        # the innermost assignment needs smallest loops last
        for L in sorted(loops.values(), key=lambda L: -len(L.blocks)):
            for b in L.blocks:
                self.loopof[b] = L

        def items_for(region, parent):
            out = []
            for b in rpo:
                if b not in region:
                    continue
                L = self.loopof.get(b)
                if parent is not None and b == parent.header:
                    out.append(('block', b))
                    continue
                if L is parent:
                    out.append(('block', b))
                elif L is not None:
                    # find the ancestor of L directly nested in parent
                    M = L
                    while M.parent is not parent and M.parent is not None:
                        M = M.parent
                    if M.parent is parent and b == M.header:
                        out.append(('loop', M))
            return out
        self.items = items_for(reach, None)
        for L in loops.values():
            L.items = items_for(L.blocks, L)
        # definitions and uses for live-outs
        defblock = {}
        for b in rpo:
            for ins in bl[b]['instrs']:
                if 'n' in ins:
                    defblock[ins['n']] = b
        uses = defaultdict(set)

        def scan(o, b):
            if isinstance(o, dict):
                if o.get('k') == 'local':
                    uses[o['n']].add(b)
                else:
                    for v in o.values():
                        scan(v, b)
            elif isinstance(o, list):
                for v in o:
                    scan(v, b)
        for b in rpo:
            for ins in bl[b]['instrs']:
                for k, v in ins.items():
                    if k not in ('n', 't', 'pos', 'op'):
                        scan(v, b)
        for L in loops.values():
            lo = []
            for nme, b in defblock.items():
                if b in L.blocks and any(u not in L.blocks for u in uses.get(nme, ())):
                    lo.append(nme)
            L.liveouts = lo
        self.phis = {}
        for b in rpo:
            self.phis[b] = [ins for ins in bl[b]['instrs'] if ins['op'] == 'phi']
        # immediate post-dominators (virtual exit = n): b post-dominates its idom d means
        # every path from d reaches b, so an instance of b has exactly the guard of d
        EXIT = n
        succs = {b: (list(bl[b]['succs']) or [EXIT]) for b in rpo}
        order = []
        seen2 = set()
        # post-order on the reverse graph from EXIT
        preds = defaultdict(list)
        for b in rpo:
            for s_ in succs[b]:
                preds[s_].append(b)
        stack = [(EXIT, 0)]
        seen2.add(EXIT)
        while stack:
            b, i = stack.pop()
            ps = preds.get(b, [])
            if i < len(ps):
                stack.append((b, i + 1))
                p = ps[i]
                if p not in seen2:
                    seen2.add(p)
                    stack.append((p, 0))
            else:
                order.append(b)
        rorder = order[::-1]
        rpos = {b: i for i, b in enumerate(rorder)}
        ipdom = {EXIT: EXIT}

        def intersect(a, b):
            while a != b:
                while rpos[a] > rpos[b]:
                    a = ipdom[a]
                while rpos[b] > rpos[a]:
                    b = ipdom[b]
            return a
        changed = True
        while changed:
            changed = False
            for b in rorder:
                if b == EXIT:
                    continue
                new = None
                for s_ in succs[b]:
                    if s_ in ipdom:
                        new = s_ if new is None else intersect(s_, new)
                if new is not None and ipdom.get(b) != new:
                    ipdom[b] = new
                    changed = True
        self.ipdom = ipdom


class Program(object):
    def __init__(self, dump):
        self.types = dump['types']
        self.funcs = {k: Func(v) for k, v in dump['funcs'].items()}
        self.globals = dump['globals']
        self.packages = dump['packages']
        self.methods = dump['methods']

    def under(self, tid):
        t = self.types[tid]
        while t['k'] == 'named':
            t = self.types[t['under']]
        return t


INTW = {'int': 64, 'int8': 8, 'int16': 16, 'int32': 32, 'int64': 64, 'uint': 64, 'uint8': 8, 'uint16': 16,
        'uint32': 32, 'uint64': 64, 'uintptr': 64, 'byte': 8, 'rune': 32, 'untyped int': 64, 'untyped rune': 32}
SIGNED = set(['int', 'int8', 'int16', 'int32', 'int64', 'rune', 'untyped int', 'untyped rune'])


# ------------------------------------------------------------------ executor

class Activation(object):
    def __init__(self, fn):
        self.fn = fn
        self.env = {}
        self.pending = defaultdict(list)
        self.returns = []
        self.defers = []
        self.guard = TRUE
        self.loopsnaps = {}
        self.cur_block = None
        self.block_guard = {}


class Executor(object):
    def __init__(self, prog, tables=None, max_unwind=400):
        self.p = prog
        self.globals = {}
        self.objs = []
        self.obligations = []
        self.assumptions = []
        self.inputs = {}       # name -> description for model decoding / replay
        self.observed = []     # (name, value, guard)
        self.max_unwind = max_unwind
        self.nlong = 0
        self.nfresh = 0
        self.stack = []
        self.stats = defaultdict(int)
        self.funcs_encoded = defaultdict(int)
        self.alloc_events = []   # (guard, site, heap, fn) for C17
        self.stores_log = []     # (guard, obj) non-local stores for C14
        self.stubs = dict(STUBS)
        self.split_cache = {}
        self.stage_funcs = set()
        self.nstage = 0
        self.trace_alloc = False
        self.pool_gets = 0
        self.in_pool = 0
        self.pool_avail = {}
        self.escaping = None
        self.name_guards = 6
        self.split_max = 128

    # ---------------------------------------------------------- types

    def zero(self, tid):
        t = self.p.types[tid]
        k = t['k']
        if k == 'named':
            return self.zero(t['under'])
        if k == 'basic':
            n = t['name']
            if n in INTW:
                return bv(0, INTW[n])
            if n in ('bool', 'untyped bool'):
                return FALSE
            if n in ('float64', 'untyped float', 'float32'):
                return const('F', 0.0)
            if n in ('string', 'untyped string'):
                return Str.lit(b'')
            if n in ('unsafe.Pointer', 'Pointer', 'untyped nil'):
                return Ptr([(TRUE, None, (), None)])
            raise Unsupported('zero of basic ' + n)
        if k == 'ptr':
            return Ptr([(TRUE, None, (), None)])
        if k == 'slice':
            return Slc([(TRUE, None, 0, 0, 0)])
        if k == 'struct':
            return Struct([self.zero(f['type']) for f in t['fields']])
        if k == 'array':
            return Arr([self.zero(t['elem']) for _ in range(t['len'])])
        if k == 'iface':
            return Ifc([(TRUE, None, None)])
        if k == 'sig':
            return None
        if k in ('map', 'chan'):
            return None
        if k == 'tuple':
            return tuple(self.zero(e) for e in t['elems'])
        raise Unsupported('zero of ' + k)

    def width(self, tid):
        t = self.p.under(tid)
        if t['k'] == 'basic' and t['name'] in INTW:
            return INTW[t['name']]
        return None

    def is_signed(self, tid):
        t = self.p.under(tid)
        return t['k'] == 'basic' and t['name'] in SIGNED

    def is_float(self, tid):
        t = self.p.under(tid)
        return t['k'] == 'basic' and t['name'] in ('float64', 'untyped float')

    def is_string(self, tid):
        t = self.p.under(tid)
        return t['k'] == 'basic' and t['name'] in ('string', 'untyped string')

    def kind(self, tid):
        return self.p.under(tid)['k']

    # ---------------------------------------------------------- memory

    def new_obj(self, tid, val, kind, site, fn=None, heap=False):
        o = Obj(len(self.objs), tid, val, kind, site, fn, heap)
        self.objs.append(o)
        return o

    def navigate(self, val, path):
        for i in path:
            if isinstance(val, Struct):
                val = val.f[i]
            elif isinstance(val, Arr):
                val = val.e[i]
            else:
                raise Unsupported('navigate into %r' % type(val))
        return val

    def updated(self, val, path, new, g):
        if not path:
            return merge2(g, new, val)
        i = path[0]
        if isinstance(val, Struct):
            f = list(val.f)
            f[i] = self.updated(f[i], path[1:], new, g)
            return Struct(f)
        if isinstance(val, Arr):
            e = list(val.e)
            e[i] = self.updated(e[i], path[1:], new, g)
            return Arr(e)
        raise Unsupported('store into %r' % type(val))

    def load(self, ptr, guard, ins=None):
        res = []
        for g, o, path, cast in ptr.alts:
            if o is None:
                self.oblige('nil', And(guard, g), 'nil dereference', ins)
                continue
            if o.released is not FALSE:
                self.oblige('released', And(guard, g, o.released), 'use after Put', ins)
            v = self.navigate(o.val, path)
            if cast == 'bytes2string':
                v = self.slice_to_string(v, And(guard, g))
            elif cast is not None:
                raise Unsupported('load through cast ' + str(cast))
            res.append((g, v))
        if not res:
            raise DeadPath()
        return restrict(merge_many(res), guard)

    def store(self, ptr, val, guard, ins=None):
        for g, o, path, cast in ptr.alts:
            gg = And(guard, g)
            if gg is FALSE:
                continue
            if o is None:
                self.oblige('nil', gg, 'nil dereference (store)', ins)
                continue
            if cast is not None:
                raise Unsupported('store through cast')
            if o.released is not FALSE:
                self.oblige('released', And(gg, o.released), 'use after Put', ins)
            if o.birth is not None and gg is not TRUE and TM._lits(gg) <= TM._lits(o.birth):
                # the object only exists where this store happens
                o.val = self.updated(o.val, path, val, TRUE)
            else:
                o.val = self.updated(o.val, path, val, gg)
            if o.kind in ('global', 'pool'):
                self.stores_log.append((gg, o, self.stack[-1].fn.name if self.stack else '?'))
                if o.kind == 'global' and getattr(self, 'harness', None) is not None and str(o.site).startswith('github.com/pandatix/'):
                    # after initialisation nothing may write package-level state (C14: confinement)
                    self.oblige('confinement', gg, 'store to package-level variable %s' % (o.site,), ins)

    # ---------------------------------------------------------- obligations

    def oblige(self, kind, viol, label, ins=None):
        """viol: condition under which the obligation is violated"""
        if viol is FALSE:
            return
        self.obligations.append({'kind': kind, 'viol': viol, 'label': label,
                                 'pos': (ins or {}).get('pos', ''), 'fn': self.stack[-1].fn.name if self.stack else ''})

    def assume(self, c):
        if c is TRUE:
            return
        self.assumptions.append(c)

    def feasible(self, guard):
        """solver feasibility of a path condition under the assumptions made so far; used only to prune a path
        that would otherwise end in Unsupported. 'unknown' keeps the path (returns True)."""
        if guard is FALSE:
            return False
        import solve
        roots = list(self.assumptions) + [guard]
        text, _ = TM.smt_defs(roots)
        sv = solve.Solver('z3', 20)
        try:
            sv.send(text)
            for a in self.assumptions:
                sv.send("(assert %s)" % TM.name(a))
            st, _ = sv.check(TM.name(guard))
            if sv.errors:
                return True
        finally:
            sv.close()
        self.stats['feasibility_queries'] = self.stats.get('feasibility_queries', 0) + 1
        return st != 'unsat'

    def fresh(self, prefix, sort):
        self.nfresh += 1
        return var('%s!%d' % (prefix, self.nfresh), sort)

    # ---------------------------------------------------------- strings

    def str_eq(self, a, b):
        if isinstance(a, RopeStr) or isinstance(b, RopeStr):
            return self.rope_eq(a, b)
        # comparison with a literal: memoised on the other operand, only alternatives of equal length matter
        for x, y in ((a, b), (b, a)):
            if len(y.alts) == 1 and y.alts[0][0] is TRUE and isinstance(y.alts[0][1], tuple) and len(x.alts) > 2:
                lit = y.alts[0][1]
                if all(t.op == 'const' for t in lit):
                    key = tuple(t.val for t in lit)
                    if x._eqmemo is None:
                        x._eqmemo = {}
                    r = x._eqmemo.get(key)
                    if r is None:
                        d, other = x.bylen()
                        sub = Str(d.get(len(lit), []) + other)
                        r = self.str_eq_raw(sub, y) if sub.alts else FALSE
                        x._eqmemo[key] = r
                    return r
        return self.str_eq_raw(a, b)

    def str_eq_raw(self, a, b):
        res = []
        for ga, ca in a.alts:
            for gb, cb in b.alts:
                if isinstance(ca, VarS) or isinstance(cb, VarS):
                    if isinstance(ca, VarS) and isinstance(cb, VarS):
                        if ca.base == cb.base and ca.len is cb.len:
                            res.append(And(ga, gb))
                            continue
                        g = And(ga, gb, Eq(ca.len, cb.len))
                        if g is FALSE:
                            continue
                        eqs = [g]
                        for k in range(min(len(ca.base), len(cb.base))):
                            eqs.append(Or(Not(bvcmp('slt', bv(k, 64), ca.len)), Eq(ca.base[k], cb.base[k])))
                        if len(ca.base) != len(cb.base):
                            eqs.append(bvcmp('sle', ca.len, bv(min(len(ca.base), len(cb.base)), 64)))
                        res.append(And(*eqs))
                        continue
                    if isinstance(cb, VarS):
                        ca, cb = cb, ca
                    if isinstance(cb, Long) or len(cb) > len(ca.base):
                        continue
                    g = And(ga, gb, Eq(ca.len, bv(len(cb), 64)))
                    if g is FALSE:
                        continue
                    eqs = [g]
                    dead = False
                    for x, y in zip(ca.base, cb):
                        e = Eq(x, y)
                        if e is FALSE:
                            dead = True
                            break
                        eqs.append(e)
                    if not dead:
                        res.append(And(*eqs))
                    continue
                la = isinstance(ca, Long)
                lb = isinstance(cb, Long)
                if la or lb:
                    if la and lb:
                        if ca.id == cb.id:
                            res.append(And(ga, gb))
                        else:
                            raise Unsupported('comparison of two unbounded strings')
                    continue
                if len(ca) != len(cb):
                    continue
                g = And(ga, gb)
                if g is FALSE:
                    continue
                eqs = [g]
                dead = False
                for x, y in zip(ca, cb):
                    e = Eq(x, y)
                    if e is FALSE:
                        dead = True
                        break
                    eqs.append(e)
                if not dead:
                    res.append(And(*eqs))
        return Or(*res)

    def str_len(self, s):
        if isinstance(s, RopeStr):
            return self.rope_len(s.segs)
        cs = []
        for g, c in s.alts:
            if isinstance(c, (Long, VarS)):
                if len(s.alts) == 1:
                    return c.len
                cs.append((g, c.len))
            else:
                cs.append((g, bv(len(c), 64)))
        return merge_many(cs)

    def slice_to_string(self, sl, guard):
        if isinstance(sl, Slc):
            alts = []
            for g, o, off, ln, cap in sl.alts:
                if o is None:
                    alts.append((g, ()))
                    continue
                if isinstance(o.val, Rope):
                    if len(sl.alts) != 1:
                        raise Unsupported('rope among alternatives')
                    return RopeStr(list(o.val.segs), o)
                alts.append((g, tuple(o.val.e[off:off + ln])))
            return Str(fuse_alts(alts, str_key))
        raise Unsupported('bytes2string of %r' % type(sl))

    def rope_len(self, segs):
        tot = bv(0, 64)
        for g, bs in segs:
            tot = bvop('bvadd', tot, Ite(g, bv(len(bs), 64), bv(0, 64)))
        return tot

    def rope_flat(self, s):
        """[(guard, byte term)] of a rope string, or of a plain string with one alternative"""
        if isinstance(s, RopeStr):
            out = []
            for g, bs in s.segs:
                for b in bs:
                    out.append((g, b))
            return out
        if isinstance(s, Str) and len(s.alts) == 1 and isinstance(s.alts[0][1], tuple):
            return [(s.alts[0][0], b) for b in s.alts[0][1]]
        raise Unsupported('rope compared with a multi-alternative string')

    def rope_eq(self, a, b):
        """structural equality of two append-only buffers: same sequence of conditional bytes with
        pairwise equivalent conditions (sufficient for equality of the strings; if the two
        sequences cannot be aligned the comparison is not supported -> inconclusive)"""
        fa, fb = self.rope_flat(a), self.rope_flat(b)
        cs = []
        for k, ((ga, ba), (gb, bb)) in enumerate(zip(fa, fb)):
            e = TRUE if ba is bb else Eq(ba, bb)
            if e is FALSE:
                # the two buffers diverge here: up to this point they emit the same bytes under equivalent
                # conditions; an input under which both emit their (different) k-th byte makes the strings
                # differ.  Equality can no longer be concluded structurally: unsat = inconclusive.
                self.incomplete_reason = 'buffers of different shape: only a divergence witness is searched'
                cs.append(Not(And(ga, gb)))
                return And(*cs)
            if e is not TRUE:
                cs.append(Or(Not(ga), e))
            if ga is not gb:
                cs.append(Eq(ga, gb))
        if len(fa) != len(fb):
            # one buffer has extra conditional bytes: they must never be emitted
            self.incomplete_reason = 'buffers of different length: the surplus bytes must be unreachable'
            for g, b_ in (fa[len(fb):] + fb[len(fa):]):
                cs.append(Not(g))
        return And(*cs)

    # ---------------------------------------------------------- operand evaluation

    def const_value(self, c):
        tid = c['t']
        if c.get('nil'):
            return self.zero(tid)
        under = self.p.under(tid)
        if under['k'] != 'basic':
            raise Unsupported('constant of type ' + tid)
        n = under['name']
        if 's' in c:
            return Str.lit(c['s'])
        if 'v' in c:
            return TRUE if c['v'] else FALSE
        if n in ('float64', 'untyped float', 'float32'):
            if 'f' in c:
                return const('F', float.fromhex(c['f']))
            return const('F', float(int(c['i'])))
        if n in INTW:
            if 'i' in c:
                return bv(int(c['i']), INTW[n])
            return bv(int(float.fromhex(c['f'])), INTW[n])
        raise Unsupported('constant ' + repr(c))

    def ev(self, act, o):
        k = o['k']
        if k == 'local' or k == 'param' or k == 'freevar':
            try:
                return act.env[o['n']]
            except KeyError:
                raise Unsupported('undefined value %s in %s' % (o['n'], act.fn.name))
        if k == 'const':
            return self.const_value(o)
        if k == 'global':
            return Ptr([(TRUE, self.global_obj(o['n']), (), None)])
        if k == 'func':
            return Fn(o['n'])
        if k == 'builtin':
            return Fn('builtin:' + o['n'])
        raise Unsupported('operand kind ' + k)

    def global_obj(self, name):
        o = self.globals.get(name)
        if o is None:
            g = self.p.globals[name]
            elem = self.p.types[g['type']]['elem']
            o = self.new_obj(elem, self.zero(elem), 'global', name)
            self.globals[name] = o
        return o

    # ---------------------------------------------------------- running

    def run_inits(self, pkgs=None):
        """execute the package initialisers of the module packages (concrete run)"""
        done = set()

        def visit(p):
            if p in done or p not in self.p.packages:
                return
            done.add(p)
            for q in self.p.packages[p]['imports']:
                visit(q)
            f = p + '.init'
            if f in self.p.funcs:
                self.call_function(f, [], TRUE, None)
        for p in sorted(self.p.packages):
            visit(p)
        self.init_objs = len(self.objs)

    def call_function(self, name, args, guard, ins):
        stub = self.stubs.get(name)
        if stub is not None:
            return stub(self, args, guard, ins)
        fn = self.p.funcs.get(name)
        if fn is None:
            raise Unsupported('call of unknown function ' + name)
        if name.endswith('.init') and (fn.external or fn.d.get('pkg') not in self.p.packages or name == 'verifharness/verif.init'):
            return None
        if fn.external:
            raise Unsupported('call of external function ' + name)
        if len(self.stack) > 60:
            raise Unsupported('call depth')
        # per-alternative execution of leaf functions that index a string parameter
        if name in self.split_funcs(fn):
            sp = self.split_call(fn, name, args, guard, ins)
            if sp is not NotImplemented:
                return sp
        r = self.run_function(fn, args, guard)
        sre = getattr(self, 'stage_re', None)
        if sre and isinstance(r, T) and r.sort == 'F' and r.op != 'const' and re.search(sre, name.split('.')[-1]):
            self.nstage += 1
            r = stage('%s#%d' % (name, self.nstage), r)
        ire = getattr(self, 'istage_re', None)
        if ire and re.search(ire, name.split('.')[-1]):
            if isinstance(r, tuple):
                r = tuple(TM.istage(x) if isinstance(x, T) and isinstance(x.sort, int) else x for x in r)
            elif isinstance(r, T) and isinstance(r.sort, int):
                r = TM.istage(r)
        return r

    def split_funcs(self, fn):
        r = getattr(fn, '_split', None)
        if r is None:
            r = set()
            if not fn.external:
                idx = set()
                leaf = True
                for b in fn.blocks:
                    for ins in b['instrs']:
                        if ins['op'] in ('lookup', 'slice', 'index') and ins['x'].get('k') == 'param':
                            idx.add(ins['x']['n'])
                        if ins['op'] == 'call':
                            c = ins['call']
                            if 'invoke' in c or c['fn'].get('k') != 'builtin':
                                st = c.get('static', '')
                                if not (st.startswith('strings.') or st.startswith('internal/')):
                                    leaf = False
                        if ins['op'] == 'store':
                            leaf = False
                fn._split_params = [i for i, p in enumerate(fn.params) if p['n'] in idx and self.is_string(p['t'])]
                if leaf and fn._split_params:
                    r.add(fn.name)
            fn._split = r
        return r

    def split_call(self, fn, name, args, guard, ins):
        idxs = [i for i in fn._split_params if isinstance(args[i], Str) and len(args[i].alts) > 1]
        if not idxs:
            return NotImplemented
        i = idxs[0]
        res = []
        for g, c in args[i].alts:
            gg = And(guard, g)
            if gg is FALSE:
                continue
            a2 = list(args)
            a2[i] = Str([(TRUE, c)])
            r = self.call_function(name, a2, gg, ins)
            res.append((g, r))
        self.stats['split_calls'] += len(res)
        if not res:
            raise DeadPath()
        return merge_many(res)

    def run_function(self, fn, args, guard, bindings=()):
        act = Activation(fn)
        for fv, b in zip(fn.freevars, bindings):
            act.env[fv['n']] = b
        if self.name_guards and TM.gsize(guard) > self.name_guards:
            guard = TM.Named(guard)
        self.funcs_encoded[fn.name] += 1
        for p, a in zip(fn.params, args):
            act.env[p['n']] = a
        act.pending[0].append((guard, {}))
        self.stack.append(act)
        try:
            self.exec_items(act, fn.items)
        finally:
            self.stack.pop()
        if not act.returns:
            if self.stack:
                raise DeadPath()
            return None
        return merge_many(act.returns)

    def exec_items(self, act, items):
        for kind, x in items:
            if kind == 'block':
                self.exec_block(act, x)
            else:
                self.exec_loop(act, x)

    def exec_loop(self, act, L):
        k = 0
        act.loopsnaps[L.header] = []
        while True:
            insts = act.pending.get(L.header)
            if not insts:
                break
            g = Or(*[i[0] for i in insts])
            if g is FALSE:
                act.pending.pop(L.header)
                break
            if k >= self.max_unwind:
                self.oblige('unwind', g, 'loop at block %d of %s not exhausted after %d iterations' % (L.header, act.fn.name, k), None)
                self.assume(Not(g))
                act.pending.pop(L.header)
                break
            groups = self.group_instances(act, L, insts) if self.split_max else None
            if groups is not None and len(groups) > 1:
                # explicit-state execution on the small-set loop variables: one pass of the body per
                # concrete value tuple of the integer header phis (keeps their correlation exact)
                act.pending.pop(L.header)
                nxt = []
                for ginsts in groups:
                    act.pending[L.header] = ginsts
                    self.exec_items(act, L.items)
                    nxt.extend(act.pending.pop(L.header, []))
                if nxt:
                    act.pending[L.header] = nxt
                self.stats['split_groups'] += len(groups)
            else:
                if groups is not None and len(groups) == 1:
                    act.pending[L.header] = groups[0]
                self.exec_items(act, L.items)
            k += 1
        self.stats['loop_iters'] += k
        snaps = act.loopsnaps.pop(L.header)
        if snaps and L.liveouts:
            for nme in L.liveouts:
                gv = [(g, s[nme]) for g, s in snaps if nme in s]
                if gv:
                    act.env[nme] = merge_many(gv) if len(gv) > 1 else gv[0][1]

    def group_instances(self, act, L, insts):
        """group the header's incoming edge instances by the concrete values of the
        integer phis (small sets are expanded); None if not applicable / too many"""
        sp = getattr(L, 'split_phis', None)
        if sp is None:
            # integer header phis that (directly or through other phis) index a slice/array
            # inside the loop: table lookups need exact, correlated indices; indices into
            # strings do not (string values carry their alternatives)
            used = set()
            phidefs = {}
            own = [b for b in L.blocks if act.fn.loopof.get(b) is L]
            for b in own:
                for ins in act.fn.blocks[b]['instrs']:
                    if ins['op'] in ('indexaddr', 'index') and not self.is_string(ins['x'].get('t', 'int')):
                        o = ins.get('index')
                        if o and o.get('k') == 'local':
                            used.add(o['n'])
                    elif ins['op'] == 'phi':
                        phidefs[ins['n']] = [e['n'] for e in ins['edges'] if e.get('k') == 'local']
            changed = True
            while changed:
                changed = False
                for p, srcs in phidefs.items():
                    if p in used:
                        for q in srcs:
                            if q in phidefs and q not in used:
                                used.add(q)
                                changed = True
            sp = L.split_phis = [ph for ph in act.fn.phis[L.header] if self.width(ph['t']) is not None and ph['n'] in used]
        phis = sp
        if not phis:
            return None
        names = [ph['n'] for ph in phis]
        groups = {}
        order = []
        n = 0
        for g, pv in insts:
            if g is FALSE:
                continue
            combos = [(g, ())]
            for nm in names:
                v = pv[nm]
                cs = cases(v) if isinstance(v, T) else None
                if cs is None:
                    return None
                nxt = []
                for g0, tup in combos:
                    for gc, val in cs:
                        gg = And(g0, gc)
                        if gg is not FALSE:
                            nxt.append((gg, tup + (val,)))
                combos = nxt
                if len(combos) > self.split_max:
                    return None
            for gg, tup in combos:
                npv = dict(pv)
                for nm, val in zip(names, tup):
                    npv[nm] = const(pv[nm].sort, val)
                if tup not in groups:
                    groups[tup] = []
                    order.append(tup)
                    if len(order) > self.split_max:
                        return None
                groups[tup].append((gg, npv))
        return [groups[t] for t in order]

    def exec_block(self, act, b):
        insts = act.pending.pop(b, None)
        if not insts:
            return
        insts = [i for i in insts if i[0] is not FALSE]
        if not insts:
            return
        guard = Or(*[i[0] for i in insts])
        if guard is FALSE:
            return
        fn = act.fn
        d = fn.blocks[b].get('idom')
        if d is not None and fn.ipdom.get(d) == b and fn.loopof.get(d) is fn.loopof.get(b) and len(insts) > 1:
            # structured join: b post-dominates its immediate dominator, same loop level
            gd = act.block_guard.get(d)
            if gd is not None:
                guard = gd
        if self.name_guards and TM.gsize(guard) > self.name_guards:
            guard = TM.Named(guard)
        act.block_guard[b] = guard
        phis = fn.phis[b]
        if phis:
            newvals = {}
            for ph in phis:
                gv = [(g, pv[ph['n']]) for g, pv in insts]
                newvals[ph['n']] = merge_many(gv)
            act.env.update(newvals)
        act.guard = guard
        act.cur_block = b
        self.stats['blocks'] += 1
        for ins in fn.blocks[b]['instrs']:
            op = ins['op']
            if op == 'phi':
                continue
            h = getattr(self, 'i_' + op, None)
            if h is None:
                raise Unsupported('instruction %s in %s' % (op, fn.name))
            self.stats['instrs'] += 1
            try:
                r = h(act, ins)
            except DeadPath:
                self.stats['dead_paths'] += 1
                return
            except Unsupported as e:
                # before giving up: a path the rewriter could not recognise as dead may be infeasible
                # (one solver query on the path condition; unknown keeps the path)
                if getattr(e, 'checked', False) or act.guard is TRUE or self.feasible(act.guard):
                    e.checked = True
                    raise
                self.stats['dead_paths'] += 1
                self.stats['pruned_by_solver'] = self.stats.get('pruned_by_solver', 0) + 1
                return
            if 'n' in ins:
                act.env[ins['n']] = r

    def emit_edge(self, act, b, succ_index, guard):
        if guard is FALSE:
            return
        fn = act.fn
        blk = fn.blocks[b]
        s = blk['succs'][succ_index]
        occ = sum(1 for x in blk['succs'][:succ_index] if x == s)
        preds = fn.blocks[s]['preds']
        pos = [i for i, p in enumerate(preds) if p == b][occ]
        pv = {}
        for ph in fn.phis.get(s, ()):
            pv[ph['n']] = self.ev(act, ph['edges'][pos])
        act.pending[s].append((guard, pv))
        # loops left by this edge: snapshot live-outs
        L = fn.loopof.get(b)
        while L is not None:
            if s not in L.blocks:
                if L.header in act.loopsnaps:
                    snap = {n: act.env[n] for n in L.liveouts if n in act.env}
                    act.loopsnaps[L.header].append((guard, snap))
            L = L.parent

    # ---------------------------------------------------------- instructions

    def i_jump(self, act, ins):
        self.emit_edge(act, act.cur_block, 0, act.guard)

    def i_if(self, act, ins):
        c = self.ev(act, ins['cond'])
        self.emit_edge(act, act.cur_block, 0, And(act.guard, c))
        self.emit_edge(act, act.cur_block, 1, And(act.guard, Not(c)))

    def i_return(self, act, ins):
        rs = [self.ev(act, r) for r in ins['results']]
        v = None if not rs else (rs[0] if len(rs) == 1 else tuple(rs))
        act.returns.append((act.guard, v))

    def i_panic(self, act, ins):
        self.oblige('panic', act.guard, 'explicit panic', ins)

    def i_rundefers(self, act, ins):
        for g, call in reversed(act.defers):
            gg = And(g, act.guard)
            if gg is FALSE:
                continue
            self.do_call(act, call, gg, ins)

    def i_defer(self, act, ins):
        c = ins['call']
        frozen = dict(c)
        frozen['_args'] = [self.ev(act, a) for a in c['args']]
        if 'fn' in c:
            frozen['_fn'] = self.ev(act, c['fn'])
        if 'recv' in c:
            frozen['_recv'] = self.ev(act, c['recv'])
        act.defers.append((act.guard, frozen))

    def i_go(self, act, ins):
        raise Unsupported('go statement')

    def i_alloc(self, act, ins):
        elem = ins['elem']
        o = self.new_obj(elem, self.zero(elem), 'heap' if ins['heap'] else 'local', ins.get('pos', ''), act.fn.name, ins['heap'])
        o.site = (act.fn.name, ins['n'], ins.get('comment', ''), ins.get('pos', ''))
        o.birth = act.guard
        if ins['heap']:
            self.alloc_events.append((act.guard, o.site, act.fn.name, self.in_pool))
        return Ptr([(TRUE, o, (), None)])

    def i_store(self, act, ins):
        self.store(self.ev(act, ins['addr']), self.ev(act, ins['val']), act.guard, ins)

    def i_unop(self, act, ins):
        x = self.ev(act, ins['x'])
        tok = ins['tok']
        if tok == '*':
            return self.load(x, act.guard, ins)
        if tok == '!':
            return Not(x)
        if tok == '-':
            if x.sort == 'F':
                return fneg(x)
            return bvneg(x)
        if tok == '^':
            return bvnot(x)
        raise Unsupported('unop ' + tok)

    def i_binop(self, act, ins):
        x = self.ev(act, ins['x'])
        y = self.ev(act, ins['y'])
        return self.binop(ins['tok'], x, y, ins['x'].get('t') or ins['y'].get('t'), act, ins)

    def val_eq(self, x, y):
        if isinstance(x, T):
            if x.sort == 'F':
                return fcmp('feq', x, y)
            return Eq(x, y)
        if isinstance(x, (Str, RopeStr)):
            return self.str_eq(x, y)
        if isinstance(x, Struct):
            return And(*[self.val_eq(a, b) for a, b in zip(x.f, y.f)])
        if isinstance(x, Arr):
            return And(*[self.val_eq(a, b) for a, b in zip(x.e, y.e)])
        if isinstance(x, Ptr):
            res = []
            for ga, oa, pa, ca in x.alts:
                for gb, ob, pb, cb in y.alts:
                    if oa is ob and pa == pb:
                        res.append(And(ga, gb))
            return Or(*res)
        if isinstance(x, Slc):
            # only comparison with nil is legal in Go
            res = []
            for ga, oa, _, _, _ in x.alts:
                for gb, ob, _, _, _ in y.alts:
                    if oa is None and ob is None:
                        res.append(And(ga, gb))
            return Or(*res)
        if isinstance(x, Ifc):
            res = []
            for ga, ta, pa in x.alts:
                for gb, tb, pb in y.alts:
                    if ta != tb:
                        continue
                    if ta is None:
                        res.append(And(ga, gb))
                    else:
                        res.append(And(ga, gb, self.val_eq(pa, pb)))
            return Or(*res)
        if x is None and y is None:
            return TRUE
        raise Unsupported('equality of %r' % type(x))

    def binop(self, tok, x, y, tid, act, ins):
        if tok == '==':
            return self.val_eq(x, y)
        if tok == '!=':
            return Not(self.val_eq(x, y))
        if isinstance(x, Str):
            if tok == '+':
                alts = []
                for ga, ca in x.alts:
                    for gb, cb in y.alts:
                        if isinstance(ca, tuple) and isinstance(cb, VarS):
                            alts.append((And(ga, gb), VarS(ca + cb.base, bvop('bvadd', cb.len, bv(len(ca), 64)))))
                            continue
                        if isinstance(ca, (Long, VarS)) or isinstance(cb, (Long, VarS)):
                            raise Unsupported('concatenation of unbounded string')
                        alts.append((And(ga, gb), ca + cb))
                return Str(fuse_alts(alts, str_key))
            raise Unsupported('string operator ' + tok)
        if not isinstance(x, T):
            raise Unsupported('binop %s on %r' % (tok, type(x)))
        if x.sort == 'B':
            if tok == '&&' or tok == '&':
                return And(x, y)
            if tok == '||' or tok == '|':
                return Or(x, y)
            raise Unsupported('bool binop ' + tok)
        if x.sort == 'F':
            m = {'+': 'fadd', '-': 'fsub', '*': 'fmul', '/': 'fdiv'}
            if tok in m:
                return fop(m[tok], x, y)
            if tok == '<':
                return fcmp('flt', x, y)
            if tok == '<=':
                return fcmp('fle', x, y)
            if tok == '>':
                return fcmp('flt', y, x)
            if tok == '>=':
                return fcmp('fle', y, x)
            raise Unsupported('float binop ' + tok)
        sg = self.is_signed(tid) if tid else True
        if tok in ('<<', '>>'):
            # shift count may have a different width
            if y.sort != x.sort:
                if y.op == 'const':
                    y = bv(min(y.val, 255), x.sort)
                else:
                    y = zext(y, x.sort) if y.sort < x.sort else extract(y, x.sort - 1, 0)
            if tok == '<<':
                return bvop('bvshl', x, y)
            return bvop('bvashr' if sg else 'bvlshr', x, y)
        m = {'+': 'bvadd', '-': 'bvsub', '*': 'bvmul', '&': 'bvand', '|': 'bvor', '^': 'bvxor'}
        if tok in m:
            return bvop(m[tok], x, y)
        if tok == '&^':
            return bvop('bvand', x, bvnot(y))
        if tok in ('/', '%'):
            z = Eq(y, bv(0, y.sort))
            self.oblige('divzero', And(act.guard, z), 'integer division by zero', ins)
            if tok == '/':
                return bvop('bvsdiv' if sg else 'bvudiv', x, y)
            return bvop('bvsrem' if sg else 'bvurem', x, y)
        if tok == '<':
            return bvcmp('slt' if sg else 'ult', x, y)
        if tok == '<=':
            return bvcmp('sle' if sg else 'ule', x, y)
        if tok == '>':
            return bvcmp('slt' if sg else 'ult', y, x)
        if tok == '>=':
            return bvcmp('sle' if sg else 'ule', y, x)
        raise Unsupported('binop ' + tok)

    def i_changetype(self, act, ins):
        return self.ev(act, ins['x'])

    def i_changeinterface(self, act, ins):
        return self.ev(act, ins['x'])

    def i_convert(self, act, ins):
        x = self.ev(act, ins['x'])
        src = ins['x']['t']
        dst = ins['t']
        dk = self.p.under(dst)
        sk = self.p.under(src)
        if isinstance(x, T) and x.sort != 'B':
            if self.is_float(dst):
                if x.sort == 'F':
                    return x
                if self.is_signed(src):
                    return I2F(sext(x, 64))
                if x.sort < 64:
                    return I2F(zext(x, 64))
                raise Unsupported('uint64 to float')
            w = self.width(dst)
            if w is None:
                if dk['k'] == 'basic' and dk['name'] == 'string':
                    raise Unsupported('string(int)')
                raise Unsupported('convert to ' + dst)
            if x.sort == 'F':
                r = f2i(x, 64)
                if isinstance(ins, dict):
                    # Go: out-of-range conversion is implementation-defined; require in range
                    pass
                return r if w == 64 else extract(r, w - 1, 0)
            if w == x.sort:
                return x
            if w < x.sort:
                return extract(x, w - 1, 0)
            return sext(x, w) if self.is_signed(src) else zext(x, w)
        if isinstance(x, Ptr):
            # pointer <-> unsafe.Pointer: remember the source element type for the string alias idiom
            if dk['k'] == 'basic' and dk['name'] in ('unsafe.Pointer', 'Pointer'):
                return Ptr([(g, o, p, ('from', src)) if c is None else (g, o, p, c) for g, o, p, c in x.alts])
            if dk['k'] == 'ptr':
                elem = self.p.under(dk['elem'])
                out = []
                for g, o, p, c in x.alts:
                    if o is None:
                        out.append((g, o, p, None))
                        continue
                    if c and c[0] == 'from':
                        se = self.p.under(self.p.under(c[1])['elem'])
                        if se['k'] == 'slice' and self.p.under(se['elem']).get('name') in ('uint8', 'byte') and elem.get('name') == 'string':
                            out.append((g, o, p, 'bytes2string'))
                            continue
                        if self.p.under(c[1]) == dk:
                            out.append((g, o, p, None))
                            continue
                    raise Unsupported('unsafe pointer conversion to ' + dst)
                return Ptr(out)
        if isinstance(x, Str) and dk['k'] == 'slice':
            # []byte(s)
            if len(x.alts) != 1 or isinstance(x.alts[0][1], Long):
                raise Unsupported('[]byte(s) of multi-alternative string')
            c = x.alts[0][1]
            o = self.new_obj('[]byte!', Arr(list(c)), 'heap', ins.get('pos', ''), act.fn.name, True)
            self.alloc_events.append((act.guard, (act.fn.name, ins['n'], 'string2bytes', ins.get('pos', '')), act.fn.name, self.in_pool))
            return Slc([(TRUE, o, 0, len(c), len(c))])
        if isinstance(x, Slc) and dk['k'] == 'basic' and dk['name'] == 'string':
            self.alloc_events.append((act.guard, (act.fn.name, ins['n'], 'bytes2string', ins.get('pos', '')), act.fn.name, self.in_pool))
            return self.slice_to_string(x, act.guard)
        if isinstance(x, Str) and dk['k'] == 'basic' and dk['name'] == 'string':
            return x
        raise Unsupported('convert %s -> %s' % (src, dst))

    def i_makeinterface(self, act, ins):
        x = self.ev(act, ins['x'])
        return Ifc([(TRUE, ins['x']['t'], x)])

    def i_makeclosure(self, act, ins):
        f = self.ev(act, ins['fn'])
        return Fn(f.name, tuple(self.ev(act, b) for b in ins['bindings']))

    def i_typeassert(self, act, ins):
        x = self.ev(act, ins['x'])
        asserted = ins['asserted']
        ak = self.p.under(asserted)
        if ak['k'] == 'iface':
            raise Unsupported('type assertion to interface type')
        hits = []
        miss = []
        for g, t, p in x.alts:
            if t == asserted:
                hits.append((g, p))
            else:
                miss.append(g)
        ok = Or(*[g for g, _ in hits])
        if hits:
            v = merge_many(hits)
            if miss:
                v = merge2(ok, v, self.zero(asserted))
        else:
            v = self.zero(asserted)
        if ins['commaok']:
            return (v, ok)
        self.oblige('typeassert', And(act.guard, Or(*miss)), 'failed type assertion', ins)
        return v

    def i_extract(self, act, ins):
        return self.ev(act, ins['tuple'])[ins['index']]

    def i_fieldaddr(self, act, ins):
        x = self.ev(act, ins['x'])
        out = []
        for g, o, p, c in x.alts:
            if o is None:
                self.oblige('nil', And(act.guard, g), 'nil dereference (field)', ins)
                continue
            out.append((g, o, p + (ins['field'],), c))
        return Ptr(out)

    def i_field(self, act, ins):
        return self.ev(act, ins['x']).f[ins['field']]

    def int_cases(self, t, what):
        cs = cases(t)
        if cs is None:
            raise Unsupported('symbolic %s (not a small set): %s' % (what, pp(t, 3)))
        return cs

    def i_indexaddr(self, act, ins):
        x = self.ev(act, ins['x'])
        idx = self.ev(act, ins['index'])
        w = idx.sort
        sg = self.is_signed(ins['index'].get('t', 'int'))
        if cases(idx) is None:
            # not a small set syntactically (e.g. a shifted bit-field): split over the positions of the indexed
            # object; anything else is out of range
            if isinstance(x, Slc):
                N = max([ln for g, o, off, ln, cap in x.alts] or [0])
            else:
                N = self.p.under(self.p.under(ins['x']['t'])['elem'])['len']
            if N > 64:
                raise Unsupported('symbolic index (not a small set) into %d elements: %s' % (N, pp(idx, 3)))
            ics = [(Eq(idx, bv(i, w)), i) for i in range(N)]
            ics = [(g, i) for g, i in ics if g is not FALSE]
            self.oblige('bounds', And(act.guard, Not(Or(*[g for g, i in ics]))), 'index out of range [0,%d) (symbolic)' % N, ins)
        else:
            ics = [(g, signed(v, w) if sg else v) for g, v in self.int_cases(idx, 'index')]
        out = []
        if isinstance(x, Slc):
            for g, o, off, ln, cap in x.alts:
                for gi, i in ics:
                    gg = And(g, gi)
                    if gg is FALSE:
                        continue
                    if o is None or i < 0 or i >= ln:
                        self.oblige('bounds', And(act.guard, gg), 'index %d out of range [0,%d)' % (i, ln), ins)
                        continue
                    out.append((gg, o, (off + i,), None))
        else:
            n = self.p.under(self.p.under(ins['x']['t'])['elem'])['len']
            for g, o, p, c in x.alts:
                for gi, i in ics:
                    gg = And(g, gi)
                    if gg is FALSE:
                        continue
                    if o is None or i < 0 or i >= n:
                        self.oblige('bounds', And(act.guard, gg), 'array index %d out of range' % i, ins)
                        continue
                    out.append((gg, o, p + (i,), c))
        if not out:
            raise DeadPath()
        return Ptr(fuse_alts(out, ptr_key))

    def i_index(self, act, ins):
        x = self.ev(act, ins['x'])
        if isinstance(x, Str):
            return self.i_lookup(act, ins)
        idx = self.ev(act, ins['index'])
        ics = self.int_cases(idx, 'index')
        res = []
        for gi, i in ics:
            i = signed(i, idx.sort)
            if i < 0 or i >= len(x.e):
                self.oblige('bounds', And(act.guard, gi), 'array index out of range', ins)
                continue
            res.append((gi, x.e[i]))
        return merge_many(res)

    def i_lookup(self, act, ins):
        x = self.ev(act, ins['x'])
        if not isinstance(x, Str):
            raise Unsupported('map lookup')
        idx = self.ev(act, ins['index'])
        ics = self.int_cases(idx, 'string index')
        res = []
        for g, c in x.alts:
            if isinstance(c, Long):
                if not self.feasible(And(act.guard, g)):
                    continue
                raise Unsupported('index into unbounded string')
            if isinstance(c, VarS):
                for gi, i in ics:
                    i = signed(i, idx.sort)
                    gg = And(g, gi)
                    if gg is FALSE:
                        continue
                    if i < 0 or i >= len(c.base):
                        self.oblige('bounds', And(act.guard, gg), 'string index %d out of range' % i, ins)
                        continue
                    self.oblige('bounds', And(act.guard, gg, Not(bvcmp('slt', bv(i, 64), c.len))), 'string index %d out of range (symbolic length)' % i, ins)
                    res.append((gg, c.base[i]))
                continue
            for gi, i in ics:
                i = signed(i, idx.sort)
                gg = And(g, gi)
                if gg is FALSE:
                    continue
                if i < 0 or i >= len(c):
                    self.oblige('bounds', And(act.guard, gg), 'string index %d out of range [0,%d)' % (i, len(c)), ins)
                    continue
                res.append((gg, c[i]))
        if not res:
            raise DeadPath()
        # fuse identical bytes
        fused = {}
        order = []
        for g, b in res:
            if b.id in fused:
                fused[b.id] = (Or(fused[b.id][0], g), b)
            else:
                fused[b.id] = (g, b)
                order.append(b.id)
        return merge_many([fused[k] for k in order])

    def i_slice(self, act, ins):
        x = self.ev(act, ins['x'])

        def bound(o):
            if o is None:
                return None
            t = self.ev(act, o)
            return [(g, signed(v, t.sort)) for g, v in self.int_cases(t, 'slice bound')]
        lo = bound(ins.get('low'))
        hi = bound(ins.get('high'))
        mx = bound(ins.get('max'))
        if isinstance(x, Str):
            alts = []
            for g, c in x.alts:
                if isinstance(c, Long):
                    # only the explicit prefix can be cut: s[:h] with h <= len(prefix) (a short string), s[l:] with
                    # l <= len(prefix) (again an unbounded string, identified by (id, l))
                    for gl, l in (lo or [(TRUE, 0)]):
                        for gh, h in (hi or [(TRUE, None)]):
                            gg = And(g, gl, gh)
                            if gg is FALSE:
                                continue
                            if l < 0 or (h is not None and h < l):
                                self.oblige('bounds', And(act.guard, gg), 'string slice [%s:%s] out of range' % (l, h), ins)
                                continue
                            if l > len(c.prefix) or (h is not None and h > len(c.prefix)):
                                if not self.feasible(And(act.guard, gg)):
                                    continue
                                raise Unsupported('slice of unbounded string beyond its explicit prefix')
                            if h is None:
                                alts.append((gg, Long((c.id, l), bvop('bvsub', c.len, bv(l, 64)), c.prefix[l:]) if l else c))
                            else:
                                alts.append((gg, c.prefix[l:h]))
                    continue
                if isinstance(c, VarS):
                    for gl, l in (lo or [(TRUE, 0)]):
                        for gh, h in (hi or [(TRUE, None)]):
                            gg = And(g, gl, gh)
                            if gg is FALSE:
                                continue
                            if l < 0 or l > len(c.base) or (h is not None and (h < l or h > len(c.base))):
                                self.oblige('bounds', And(act.guard, gg), 'string slice [%s:%s] out of range' % (l, h), ins)
                                continue
                            if h is None:
                                self.oblige('bounds', And(act.guard, gg, Not(bvcmp('sle', bv(l, 64), c.len))), 'string slice [%d:] out of range (symbolic length)' % l, ins)
                                alts.append((gg, VarS(c.base[l:], bvop('bvsub', c.len, bv(l, 64))) if l else c))
                            else:
                                self.oblige('bounds', And(act.guard, gg, Not(bvcmp('sle', bv(h, 64), c.len))), 'string slice [%d:%d] out of range (symbolic length)' % (l, h), ins)
                                alts.append((gg, c.base[l:h]))
                    continue
                for gl, l in (lo or [(TRUE, 0)]):
                    for gh, h in (hi or [(TRUE, len(c))]):
                        gg = And(g, gl, gh)
                        if gg is FALSE:
                            continue
                        if not (0 <= l <= h <= len(c)):
                            self.oblige('bounds', And(act.guard, gg), 'string slice [%d:%d] out of range (len %d)' % (l, h, len(c)), ins)
                            continue
                        alts.append((gg, c[l:h]))
            if not alts:
                raise DeadPath()
            return Str(fuse_alts(alts, str_key))
        if isinstance(x, Ptr):
            # slicing *array
            n = self.p.under(self.p.under(ins['x']['t'])['elem'])['len']
            alts = []
            for g, o, p, c in x.alts:
                if o is None:
                    self.oblige('nil', And(act.guard, g), 'slice of nil array pointer', ins)
                    continue
                if p != ():
                    raise Unsupported('slice of nested array')
                for gl, l in (lo or [(TRUE, 0)]):
                    for gh, h in (hi or [(TRUE, n)]):
                        for gm, m in (mx or [(TRUE, n)]):
                            gg = And(g, gl, gh, gm)
                            if gg is FALSE:
                                continue
                            if not (0 <= l <= h <= m <= n):
                                self.oblige('bounds', And(act.guard, gg), 'array slice out of range', ins)
                                continue
                            alts.append((gg, o, l, h - l, m - l))
            return Slc(fuse_alts(alts, slc_key))
        if isinstance(x, Slc):
            alts = []
            for g, o, off, ln, cap in x.alts:
                for gl, l in (lo or [(TRUE, 0)]):
                    for gh, h in (hi or [(TRUE, ln)]):
                        for gm, m in (mx or [(TRUE, cap)]):
                            gg = And(g, gl, gh, gm)
                            if gg is FALSE:
                                continue
                            if not (0 <= l <= h <= m <= cap):
                                self.oblige('bounds', And(act.guard, gg), 'slice [%d:%d:%d] out of range (cap %d)' % (l, h, m, cap), ins)
                                continue
                            if o is not None and isinstance(o.val, Rope):
                                raise Unsupported('reslicing a rope buffer')
                            alts.append((gg, o, off + l, h - l, m - l))
            if not alts:
                raise DeadPath()
            return Slc(fuse_alts(alts, slc_key))
        if isinstance(x, RopeStr):
            # prefix of a serialiser buffer: only through leading unconditional bytes
            if lo not in (None, [(TRUE, 0)]) or hi is None or len(hi) != 1:
                raise Unsupported('slice of a rope string other than a constant prefix')
            h = hi[0][1]
            # case analysis over the leading segments (each present or absent) until h bytes are fixed
            done = []
            work = [(TRUE, ())]
            for g, bs in x.segs:
                if not work:
                    break
                nxt = []
                for pg, pb in work:
                    for gg, nb in ((And(pg, g), pb + tuple(bs)), (And(pg, Not(g)), pb)):
                        if gg is FALSE:
                            continue
                        if len(nb) >= h:
                            done.append((gg, nb[:h]))
                        else:
                            nxt.append((gg, nb))
                work = nxt
                if len(work) + len(done) > 64:
                    raise Unsupported('prefix of a rope string: too many segment combinations')
            for pg, pb in work:
                self.oblige('bounds', And(act.guard, pg), 'string slice [:%d] out of range (rope of %d bytes)' % (h, len(pb)), ins)
            if not done:
                raise DeadPath()
            return Str(fuse_alts(done, str_key))
        raise Unsupported('slice of %r' % type(x))

    def i_makeslice(self, act, ins):
        ln = self.ev(act, ins['len'])
        cp = self.ev(act, ins['cap'])
        elem = self.p.under(ins['t'])['elem']
        site = (act.fn.name, ins['n'], 'makeslice', ins.get('pos', ''))
        self.alloc_events.append((act.guard, site, act.fn.name, self.in_pool))
        ek = self.p.under(elem)
        if cp.op != 'const' or ln.op != 'const':
            if ek.get('name') in ('uint8', 'byte') and ln.op == 'const' and ln.val == 0:
                o = self.new_obj(ins['t'] + '!rope', Rope(cp), 'heap', site, act.fn.name, True)
                return Slc([(TRUE, o, 0, 0, 0)])
            lcs = cases(ln)
            ccs = cases(cp)
            if lcs is None or ccs is None:
                raise Unsupported('make with symbolic size')
            alts = []
            for gl, l in lcs:
                for gc, c in ccs:
                    gg = And(gl, gc)
                    if gg is FALSE:
                        continue
                    if l > c:
                        self.oblige('bounds', And(act.guard, gg), 'make: len > cap', ins)
                        continue
                    o = self.new_obj(ins['t'] + '!arr', Arr([self.zero(elem) for _ in range(c)]), 'heap', site, act.fn.name, True)
                    alts.append((gg, o, 0, l, c))
            return Slc(alts)
        n, c = ln.val, cp.val
        if n > c or c > 1 << 20:
            raise Unsupported('make size')
        o = self.new_obj(ins['t'] + '!arr', Arr([self.zero(elem) for _ in range(c)]), 'heap', site, act.fn.name, True)
        return Slc([(TRUE, o, 0, n, c)])

    def i_range(self, act, ins):
        raise Unsupported('range over string/map')

    def i_next(self, act, ins):
        raise Unsupported('range over string/map')

    # ---------------------------------------------------------- calls

    def i_call(self, act, ins):
        return self.do_call(act, ins['call'], act.guard, ins)

    def do_call(self, act, c, guard, ins):
        if '_args' in c:
            args = c['_args']
        else:
            args = [self.ev(act, a) for a in c['args']]
        if 'invoke' in c:
            recv = c['_recv'] if '_recv' in c else self.ev(act, c['recv'])
            res = []
            for g, t, p in recv.alts:
                gg = And(guard, g)
                if gg is FALSE:
                    continue
                if t is None:
                    self.oblige('nil', gg, 'method call on nil interface', ins)
                    continue
                m = self.p.methods.get(t, {}).get(c['invoke'])
                if m is None:
                    raise Unsupported('invoke %s on %s' % (c['invoke'], t))
                res.append((g, self.call_function(m, [p] + args, gg, ins)))
            return merge_many(res)
        f = c['_fn'] if '_fn' in c else self.ev(act, c['fn'])
        if not isinstance(f, Fn):
            raise Unsupported('call of non-function value')
        if f.name.startswith('builtin:'):
            return self.builtin(act, f.name[8:], args, guard, ins, c)
        if f.bindings:
            fn = self.p.funcs[f.name]
            return self.run_function(fn, args, guard, f.bindings)
        return self.call_function(f.name, args, guard, ins)

    def builtin(self, act, name, args, guard, ins, c):
        if name == 'len':
            x = args[0]
            if isinstance(x, (Str, RopeStr)):
                return self.str_len(x)
            if isinstance(x, Slc):
                if len(x.alts) == 1 and x.alts[0][1] is not None and isinstance(x.alts[0][1].val, Rope):
                    return x.alts[0][1].val.lenterm
                return merge_many([(g, bv(ln, 64)) for g, o, off, ln, cap in x.alts])
            raise Unsupported('len of %r' % type(x))
        if name == 'cap':
            x = args[0]
            if len(x.alts) == 1 and x.alts[0][1] is not None and isinstance(x.alts[0][1].val, Rope):
                return x.alts[0][1].val.cap
            return merge_many([(g, bv(cap, 64)) for g, o, off, ln, cap in x.alts])
        if name == 'append':
            return self.do_append(act, args[0], args[1], guard, ins)
        if name == 'ssa:wrapnilchk':
            return args[0]
        if name == 'copy':
            raise Unsupported('copy')
        if name == 'print' or name == 'println':
            return None
        raise Unsupported('builtin ' + name)

    def do_append(self, act, dst, src, guard, ins):
        # rope buffers: append-only byte buffer with symbolic capacity
        if len(dst.alts) == 1 and dst.alts[0][1] is not None and isinstance(dst.alts[0][1].val, Rope):
            o = dst.alts[0][1]
            rope = o.val
            if isinstance(src, Str):
                for g, c in src.alts:
                    if isinstance(c, (Long, VarS)):
                        raise Unsupported('append of unbounded string')
                    gg = And(guard, g)
                    if gg is not FALSE and len(c):
                        rope.segs.append((gg, c))
                srclen = self.str_len(src)
            elif isinstance(src, Slc):
                for g, so, off, ln, cap in src.alts:
                    gg = And(guard, g)
                    if gg is not FALSE and ln:
                        rope.segs.append((gg, tuple(so.val.e[off:off + ln])))
                srclen = merge_many([(g, bv(ln, 64)) for g, so, off, ln, cap in src.alts])
            else:
                raise Unsupported('append source')
            # running length: one conditional addend per append (alternatives of equal length fold to a constant)
            rope.lenterm = bvop('bvadd', rope.lenterm, Ite(guard, srclen, bv(0, 64)))
            # growth obligation: total length must stay within capacity (else append reallocates)
            if rope.checked:
                ln = rope.lenterm
                rope.grow.append((guard, ln, ins.get('pos', '') if ins else ''))
                self.oblige('growth', And(guard, Not(bvcmp('sle', ln, rope.cap))), 'append beyond the capacity computed for the buffer (reallocation)', ins)
            return dst
        # generic: concrete lengths
        if isinstance(src, Str):
            salts = []
            for g, c in src.alts:
                if isinstance(c, (Long, VarS)):
                    raise Unsupported('append of unbounded string')
                salts.append((g, list(c)))
        elif isinstance(src, Slc):
            salts = []
            for g, so, off, ln, cap in src.alts:
                salts.append((g, list(so.val.e[off:off + ln]) if so is not None else []))
        else:
            raise Unsupported('append source %r' % type(src))
        out = []
        for g, o, off, ln, cap in dst.alts:
            for gs, elems in salts:
                gg = And(g, gs)
                if And(guard, gg) is FALSE:
                    continue
                n = len(elems)
                if n == 0:
                    out.append((gg, o, off, ln, cap))
                    continue
                if o is not None and ln + n <= cap:
                    for j, e in enumerate(elems):
                        o.val = self.updated(o.val, (off + ln + j,), e, And(guard, gg))
                    out.append((gg, o, off, ln + n, cap))
                else:
                    # growth: fresh backing array (Go's growth policy is not modelled: cap = new len)
                    old = list(o.val.e[off:off + ln]) if o is not None else []
                    site = (act.fn.name, ins.get('n', '?') if ins else '?', 'append-grow', ins.get('pos', '') if ins else '')
                    no = self.new_obj('grown', Arr(old + elems), 'heap', site, act.fn.name, True)
                    self.alloc_events.append((And(guard, gg), site, act.fn.name, self.in_pool))
                    out.append((gg, no, 0, ln + n, ln + n))
        return Slc(fuse_alts(out, slc_key))


# ------------------------------------------------------------------ stubs

def _label(s):
    if isinstance(s, Str) and len(s.alts) == 1 and not isinstance(s.alts[0][1], Long):
        return showbytes(s.alts[0][1])
    raise Unsupported('non-constant label')


def _intarg(t):
    if t.op != 'const':
        raise Unsupported('non-constant intrinsic argument')
    return signed(t.val, t.sort)


def stub_nondet_string(ex, args, guard, ins):
    nm = _label(args[0])
    n = _intarg(args[1])
    conc = getattr(ex, 'concrete', None)
    if conc is not None and nm in conc:
        # translator validation: the input is a concrete string, the run is a concrete run
        return Str.lit(conc[nm])
    L = var('%s_len' % nm, 64)
    if n >= 0:
        bs = tuple(var('%s_b%d' % (nm, i), 8) for i in range(n))
        ex.assume(bvcmp('ule', L, bv(n, 64)))
        ex.inputs[nm] = {'kind': 'string', 'max': n}
        if getattr(ex, 'varstrings', True):
            # one alternative: bytes b0..b(N-1) with a symbolic length that is a small set over L
            ln = from_cases([(Eq(L, bv(k, 64)), k) for k in range(n + 1)], 64)
            return Str([(TRUE, VarS(bs, ln))])
        return Str([(Eq(L, bv(k, 64)), bs[:k]) for k in range(n + 1)])
    K = -n  # strings of any length; the first K bytes are explicit
    bs = tuple(var('%s_b%d' % (nm, i), 8) for i in range(K))
    ex.nlong += 1
    ex.inputs[nm] = {'kind': 'string', 'max': K, 'unbounded': True}
    alts = [(Eq(L, bv(k, 64)), bs[:k]) for k in range(K + 1)]
    alts.append((bvcmp('ult', bv(K, 64), L), Long(ex.nlong, L, bs)))
    ex.assume(bvcmp('sle', bv(0, 64), L))
    return Str(alts)


def stub_bytebuf(ex, args, guard, ins):
    """verif.ByteBuf(): an empty append-only byte buffer with enough capacity (reference serialisers)"""
    ex.nfresh += 1
    o = ex.new_obj('[]byte!rope', Rope(var('bufcap!%d' % ex.nfresh, 64), checked=False), 'heap', ('verif.ByteBuf', '', '', ''), None, True)
    return Slc([(TRUE, o, 0, 0, 0)])


def stub_alloccount(ex, args, guard, ins):
    """verif.AllocCount(): number of heap allocations performed so far on this path: allocation sites
    of the module that the gc compiler reports as escaping (go build -gcflags=-m), outside sync.Pool's New"""
    tot = bv(0, 64)
    for ev in ex.alloc_events:
        g, site, fn, inpool = ev
        if isinstance(inpool, T):
            # allocation inside sync.Pool's New: it happens only when the pool was empty at that Get
            g = And(g, inpool)
            if g is FALSE:
                continue
        elif inpool:
            continue
        pos = site[3] if isinstance(site, tuple) and len(site) > 3 else ''
        fl = ':'.join(pos.split(':')[:3])
        mult = 1
        if ex.escaping is not None:
            if fl in ex.escaping:
                mult = ex.escaping[fl] if isinstance(ex.escaping, dict) else 1
            elif site[2] == 'complit' and isinstance(ex.escaping, dict):
                # go/ssa places a composite literal at its brace, the compiler reports the '&': match on the line
                ln = ':'.join(pos.split(':')[:2]) + ':'
                ms = [v for k, v in ex.escaping.items() if k.startswith(ln)]
                if not ms:
                    continue
                mult = max(ms)
            else:
                continue
        if not pos.startswith('/repo/'):
            continue
        tot = bvop('bvadd', tot, Ite(g, bv(mult, 64), bv(0, 64)))
    return tot


def stub_allocs(ex, args, guard, ins):
    """verif.Allocs(f): number of heap allocations f performs (escaping allocation sites of the module
    outside sync.Pool's New; appends beyond capacity are separate 'growth' obligations)"""
    before = stub_alloccount(ex, [], guard, ins)
    f = args[0]
    if not isinstance(f, Fn):
        raise Unsupported('Allocs of a non-function')
    fn = ex.p.funcs[f.name]
    ex.run_function(fn, [], guard, f.bindings)
    after = stub_alloccount(ex, [], guard, ins)
    return bvop('bvsub', after, before)


def stub_allocs_after(ex, args, guard, ins):
    """verif.AllocsAfter(pre, f): number of heap allocations f performs when it runs right after pre
    (pre's own allocations are not counted; what pre leaves behind - e.g. in a sync.Pool - is)"""
    for a in args[:2]:
        if not isinstance(a, Fn):
            raise Unsupported('AllocsAfter of a non-function')
    ex.run_function(ex.p.funcs[args[0].name], [], guard, args[0].bindings)
    before = stub_alloccount(ex, [], guard, ins)
    ex.run_function(ex.p.funcs[args[1].name], [], guard, args[1].bindings)
    after = stub_alloccount(ex, [], guard, ins)
    return bvop('bvsub', after, before)


def stub_nondet_bytes(ex, args, guard, ins):
    """verif.NondetBytes(name, n): a string of exactly n arbitrary bytes"""
    nm = _label(args[0])
    n = _intarg(args[1])
    bs = tuple(var('%s_b%d' % (nm, i), 8) for i in range(n))
    ex.inputs[nm] = {'kind': 'bytes', 'len': n}
    return Str([(TRUE, bs)])


def stub_nondet_uint8(ex, args, guard, ins):
    nm = _label(args[0])
    ex.inputs[nm] = {'kind': 'uint8'}
    return var(nm, 8)


def stub_nondet_bool(ex, args, guard, ins):
    nm = _label(args[0])
    ex.inputs[nm] = {'kind': 'bool'}
    return var(nm, 'B')


def stub_nondet_int(ex, args, guard, ins):
    nm = _label(args[0])
    lo, hi = _intarg(args[1]), _intarg(args[2])
    if hi - lo < 256:
        # small range: selector byte, value is a small set
        w = 8
        v = var(nm, w)
        ex.assume(bvcmp('ule', v, bv(hi - lo, w)))
        ex.inputs[nm] = {'kind': 'int', 'lo': lo, 'hi': hi, 'w': w}
        return from_cases([(Eq(v, bv(k - lo, w)), k & ((1 << 64) - 1)) for k in range(lo, hi + 1)], 64)
    v = var(nm, 64)
    ex.assume(And(bvcmp('sle', bv(lo, 64), v), bvcmp('sle', v, bv(hi, 64))))
    ex.inputs[nm] = {'kind': 'int', 'lo': lo, 'hi': hi, 'w': 64}
    return v


def stub_nondet_float(ex, args, guard, ins):
    nm = _label(args[0])
    ex.inputs[nm] = {'kind': 'float64'}
    return var(nm, 'F')


def stub_assume(ex, args, guard, ins):
    ex.assume(Implies(guard, args[0]))
    if guard is TRUE:
        # an unconditional assumption "x != c" on an input byte also folds later tests of x == c
        for l in TM._lits(args[0]):
            if l.op == 'not' and l.args[0].op == 'eq' and l.args[0].args[0].op == 'var' and l.args[0].args[1].op == 'const':
                TM.KNOWN_FALSE.add(l.args[0].id)
    return None


def stub_assert(ex, args, guard, ins):
    lab = _label(args[1])
    ex.stats['asserts'] += 1
    inc = getattr(ex, 'incomplete_reason', None)
    ex.incomplete_reason = None
    parts = TM._lits(args[0])
    if inc:
        ex.obligations.append({'kind': 'assert', 'viol': And(guard, Not(args[0])), 'label': lab, 'pos': (ins or {}).get('pos', ''),
                               'fn': ex.stack[-1].fn.name if ex.stack else '', 'cond': args[0], 'guard': guard, 'incomplete': inc})
        return None
    if len(parts) > 12:
        # a big conjunction (e.g. the byte-wise comparison of two buffers) is discharged conjunct by conjunct
        pos = (ins or {}).get('pos', '')
        fn = ex.stack[-1].fn.name if ex.stack else ''
        for k, c in enumerate(sorted(parts, key=lambda t: t.id)):
            ex.obligations.append({'kind': 'assert-part', 'viol': And(guard, Not(c)), 'label': '%s [conjunct %d/%d]' % (lab, k + 1, len(parts)), 'pos': pos, 'fn': fn})
        # reachability witness for the whole assertion
        ex.obligations.append({'kind': 'assert', 'viol': FALSE, 'label': lab + ' [reachability of the assertion]', 'pos': pos, 'fn': fn, 'cond': TRUE, 'guard': guard})
        return None
    ex.obligations.append({'kind': 'assert', 'viol': And(guard, Not(args[0])), 'label': lab,
                           'pos': (ins or {}).get('pos', ''), 'fn': ex.stack[-1].fn.name if ex.stack else '',
                           'cond': args[0], 'guard': guard})
    return None


def stub_unwind(ex, args, guard, ins):
    ex.max_unwind = _intarg(args[0])
    return None


def stub_table(ex, args, guard, ins):
    return table(_label(args[0]), args[1])


def stub_param(ex, args, guard, ins):
    nm = _label(args[0])
    v = getattr(ex, 'params', {}).get(nm, _intarg(args[1]))
    if not hasattr(ex, 'params_used'):
        ex.params_used = {}
    ex.params_used[nm] = v
    return bv(v, 64)


def _varargs(sl):
    if not isinstance(sl, Slc) or len(sl.alts) != 1:
        raise Unsupported('variadic argument')
    g, o, off, ln, cap = sl.alts[0]
    if o is None:
        return []
    return list(o.val.e[off:off + ln])


def stub_relation(kind):
    def stub(ex, args, guard, ins):
        if guard is not TRUE:
            raise Unsupported('verif.%s under a path condition' % kind)
        if not hasattr(ex, 'extras'):
            ex.extras = []
        ex.extras.append({'kind': kind, 'name': _label(args[0]), 'val': args[1], 'digits': _varargs(args[2])})
        return None
    return stub


def stub_observe(ex, args, guard, ins):
    v = args[1]
    if isinstance(v, Ifc) and len(v.alts) == 1:
        v = v.alts[0][2]
    ex.observed.append((_label(args[0]), v, guard))
    return None


def havoc_value(ex, v, prefix, tdesc, tid):
    if isinstance(v, T):
        return var(prefix, v.sort)
    if isinstance(v, Struct):
        t = ex.p.under(tid)
        return Struct([havoc_value(ex, f, prefix + '_' + fd['name'], None, fd['type']) for f, fd in zip(v.f, t['fields'])])
    if isinstance(v, Arr):
        t = ex.p.under(tid)
        return Arr([havoc_value(ex, e, '%s_%d' % (prefix, i), None, t['elem']) for i, e in enumerate(v.e)])
    raise Unsupported('havoc of %r' % type(v))


def stub_havoc(ex, args, guard, ins):
    nm = _label(args[0])
    ifc = args[1]
    if len(ifc.alts) != 1:
        raise Unsupported('havoc target')
    _, t, p = ifc.alts[0]
    if len(p.alts) != 1:
        raise Unsupported('havoc target')
    _, o, path, _ = p.alts[0]
    if path != ():
        raise Unsupported('havoc of inner pointer')
    o.val = havoc_value(ex, o.val, nm, None, o.tid)
    ex.inputs[nm] = {'kind': 'object', 'type': o.tid, 'fields': [f['name'] for f in ex.p.under(o.tid).get('fields', [])]}
    return None


def stub_pool_get(ex, args, guard, ins):
    """sync.Pool.Get: a value produced by New() whose contents are arbitrary
    (whatever an earlier user left there before Put)"""
    pool = ex.load(args[0], guard, ins)
    newf = pool.f[-1] if isinstance(pool, Struct) else None
    # locate the New field by type: it is the only func-typed field
    t = ex.p.under(ex.p.under(ins['call']['args'][0]['t'])['elem']) if ins and 'call' in ins else None
    fnv = None
    if isinstance(pool, Struct):
        for f in pool.f:
            if isinstance(f, Fn):
                fnv = f
    if fnv is None:
        raise Unsupported('sync.Pool without New')
    # availability model (steady state): one object is in the pool when the harness starts (left there by the
    # previous, balanced, call); Get takes one if there is one, else New allocates; Put returns one.
    pid = _pool_id(args[0])
    avail = ex.pool_avail.get(pid, bv(1, 64))
    empty = Eq(avail, bv(0, 64))
    old_in_pool = ex.in_pool
    ex.in_pool = empty if not old_in_pool else old_in_pool
    try:
        v = ex.call_function(fnv.name, [], guard, ins)
    finally:
        ex.in_pool = old_in_pool
    ex.pool_avail[pid] = Ite(guard, Ite(empty, avail, bvop('bvsub', avail, bv(1, 64))), avail)
    ex.pool_gets += 1
    k = ex.pool_gets
    # havoc the contents of what New returned
    for g, tt, payload in v.alts:
        if isinstance(payload, Slc):
            for gs, o, off, ln, cap in payload.alts:
                if o is None:
                    continue
                o.kind = 'pool'
                for i in range(len(o.val.e)):
                    e = o.val.e[i]
                    if isinstance(e, Str):
                        nm = 'pool%d_%d' % (k, i)
                        L = var(nm + '_len', 8)
                        b0 = var(nm + '_b0', 8)
                        b1 = var(nm + '_b1', 8)
                        o.val.e[i] = Str([(Eq(L, bv(0, 8)), ()), (Eq(L, bv(1, 8)), (b0,)), (Eq(L, bv(2, 8)), (b0, b1))])
                        ex.assume(bvcmp('ule', L, bv(2, 8)))
                        # what an earlier call left there was cut at '/' (only the last part may contain one)
                        ex.assume(And(Not(Eq(b0, bv(47, 8))), Not(Eq(b1, bv(47, 8)))))
                    elif isinstance(e, T):
                        o.val.e[i] = var('pool%d_%d' % (k, i), e.sort)
        else:
            # (a pointer to a pooled array used as an append buffer was tried: the generic slice model
            # needs one alternative per length and does not finish; reported as unsupported instead)
            raise Unsupported('pool payload')
    return v


def _pool_id(p):
    try:
        return tuple(sorted(o.id for g, o, pth, c in p.alts if o is not None))
    except Exception:
        return 'pool'


def stub_pool_put(ex, args, guard, ins):
    v = args[1]
    pid = _pool_id(args[0])
    avail = ex.pool_avail.get(pid, bv(1, 64))
    ex.pool_avail[pid] = Ite(guard, bvop('bvadd', avail, bv(1, 64)), avail)
    for g, tt, payload in v.alts:
        if isinstance(payload, Slc):
            for gs, o, off, ln, cap in payload.alts:
                if o is not None:
                    o.released = Or(o.released, And(guard, g, gs))
        elif isinstance(payload, Ptr):
            for gs, o, pth, c in payload.alts:
                if o is not None:
                    o.released = Or(o.released, And(guard, g, gs))
    return None


def stub_errors_new(ex, args, guard, ins):
    o = ex.new_obj('errors.errorString', Struct([args[0]]), 'global', 'errors.New')
    return Ifc([(TRUE, '*errors.errorString', Ptr([(TRUE, o, (), None)]))])


def stub_sprintf(ex, args, guard, ins):
    return Str.lit(b'<fmt>')


def gomin(x, y, mx=False):
    nan = fconst_bits(0x7FF8000000000001)
    anynan = Or(fisnan(x), fisnan(y))
    zero = const('F', 0.0)
    bothzero = And(fcmp('feq', x, zero), fcmp('feq', y, zero))
    if mx:
        pick0 = Ite(fisneg(x), y, x)
        lt = Ite(fcmp('flt', y, x), x, y)
    else:
        pick0 = Ite(fisneg(x), x, y)
        lt = Ite(fcmp('flt', x, y), x, y)
    if x.op == 'const' and y.op == 'const':
        pass
    return Ite(anynan, nan, Ite(bothzero, pick0, lt))


def stub_math_min(ex, args, guard, ins):
    return gomin(args[0], args[1])


def stub_math_max(ex, args, guard, ins):
    return gomin(args[0], args[1], True)


STUBS = {
    'verifharness/verif.NondetString': stub_nondet_string,
    'verifharness/verif.NondetUint8': stub_nondet_uint8,
    'verifharness/verif.NondetBytes': stub_nondet_bytes,
    'verifharness/verif.ByteBuf': stub_bytebuf,
    'verifharness/verif.AllocCount': stub_alloccount,
    'verifharness/verif.Allocs': stub_allocs,
    'verifharness/verif.AllocsAfter': stub_allocs_after,
    'verifharness/verif.NondetBool': stub_nondet_bool,
    'verifharness/verif.NondetInt': stub_nondet_int,
    'verifharness/verif.NondetFloat64': stub_nondet_float,
    'verifharness/verif.Assume': stub_assume,
    'verifharness/verif.Assert': stub_assert,
    'verifharness/verif.Unwind': stub_unwind,
    'verifharness/verif.Table': stub_table,
    'verifharness/verif.Observe': stub_observe,
    'verifharness/verif.Havoc': stub_havoc,
    'verifharness/verif.PrimePool': lambda ex, a, g, i: None,
    'verifharness/verif.Param': stub_param,
    'verifharness/verif.Functional': stub_relation('functional'),
    'verifharness/verif.Monotone': stub_relation('monotone'),
    'verifharness/verif.Oracle': stub_relation('oracle'),
    '(*sync.Pool).Get': stub_pool_get,
    '(*sync.Pool).Put': stub_pool_put,
    'errors.New': stub_errors_new,
    'fmt.Sprintf': stub_sprintf,
    'math.Min': stub_math_min,
    'math.Max': stub_math_max,
    'math.Round': lambda ex, a, g, i: fround('rna', a[0]),
    'math.RoundToEven': lambda ex, a, g, i: fround('rne', a[0]),
    'math.Floor': lambda ex, a, g, i: fround('rtn', a[0]),
    'math.Ceil': lambda ex, a, g, i: fround('rtp', a[0]),
    'math.Trunc': lambda ex, a, g, i: fround('rtz', a[0]),
    'math.Abs': lambda ex, a, g, i: fabs(a[0]),
    'math.NaN': lambda ex, a, g, i: fconst_bits(0x7FF8000000000001),
    'math.IsNaN': lambda ex, a, g, i: fisnan(a[0]),
    'math.Inf': lambda ex, a, g, i: Ite(bvcmp('sle', bv(0, 64), a[0]), const('F', float('inf')), const('F', float('-inf'))),
    'math.Float64bits': lambda ex, a, g, i: fbits(a[0]),
    'math.Float64frombits': lambda ex, a, g, i: bits2f(a[0]),
}


def stub_indexbytestring(ex, args, guard, ins):
    """internal/bytealg.IndexByteString(s, c): least k with s[k]==c, else -1"""
    s, c = args
    res = []
    for g, content in s.alts:
        if isinstance(content, Long):
            raise Unsupported('IndexByte on unbounded string')
        none = []
        cs = []
        if isinstance(content, VarS):
            for k, b in enumerate(content.base):
                hit = And(Eq(b, c), bvcmp('slt', bv(k, 64), content.len))
                cs.append((And(*(none + [hit])), k))
                none.append(Not(hit))
        else:
            for k, b in enumerate(content):
                hit = Eq(b, c)
                cs.append((And(*(none + [hit])), k))
                none.append(Not(hit))
        cs.append((And(*none) if none else TRUE, (1 << 64) - 1))
        res.append((g, from_cases(cs, 64)))
    return merge_many(res)


STUBS['internal/bytealg.IndexByteString'] = stub_indexbytestring


def load_program(path):
    with open(path) as f:
        return Program(json.load(f))
