#!/usr/bin/env python3
"""writes /verif/MANIFEST.json from props.PROPS (single source of truth)"""
import json
import os
import sys
HERE = os.path.dirname(os.path.abspath(__file__))
sys.path.insert(0, HERE)
import props

ALL = ['C%02d' % i for i in range(1, 19)]
man = {
    'version': 1,
    'setup_cmd': './setup.sh',
    'hooks': {
        'guard': 'verif',
        'enable': 'no source hooks: harnesses live in /verif/harness (a module with `replace github.com/pandatix/go-cvss => /repo`) and use the exported API; the SSA of /repo\'s working tree is regenerated on every run',
        'baseline_off_cmd': 'for m in . differential; do (cd /repo/$m && go test -json -vet=off -count=1 -timeout 25m ./...); done',
        'source_commits': props.HOOK_COMMITS if hasattr(props, 'HOOK_COMMITS') else [],
        'add_only': True,
    },
    'engines': [{
        'name': 'gosmt',
        'path': 'gosmt/',
        'serves_properties': sorted(props.PROPS),
        'kind_free_text': 'bounded symbolic executor for Go written for this task: go/ssa (x/tools v0.29.0) of /repo\'s working tree dumped to JSON by gosmt/ssajson, executed symbolically by gosmt/symexec.py (merged paths, unrolled loops with unwinding obligations, guarded memory, panics as obligations) into a hash-consed term DAG, discharged as SMT-LIB2 by z3 4.8.12 (z3 5.1.0 and cvc5 1.0.3 re-decide in the thorough tier); floating-point scoring is decided by solver-enumerated frontier cubes whose FP value is folded by the solver; every model is replayed natively against the real code (harness/cmd/replay)',
    }],
    'checks': [],
    'not_applicable': [],
    'notes': 'See DESIGN.md. Every check regenerates the encoding from /repo\'s current working tree; bounds and inconclusive queries are reported in the evidence, never as success.',
}
for pid in ALL:
    cfg = props.PROPS.get(pid)
    if cfg is None or cfg.get('disabled'):
        man['not_applicable'].append({'property_id': pid, 'reason': props.NOT_APPLICABLE.get(pid, 'not claimed')})
        continue
    man['checks'].append({
        'property_id': pid,
        'quick_cmd': './check %s --tier quick' % pid,
        'thorough_cmd': './check %s --tier thorough' % pid,
        'evidence_file': 'evidence/%s.json' % pid,
        'replay_cmd_template': './check %s --replay {path}' % pid,
        'engine': 'gosmt',
        'level_claimed': {'category': cfg['level'], 'text': cfg['text'] + ' Bounds: ' + cfg.get('bounds', ''), 'design_ref': cfg.get('design_ref', 'DESIGN.md section 6 (%s)' % pid)},
        'level_note': cfg.get('note', 'Trusted: go/ssa front end, the gosmt executor/rewriter (guarded by native replay of every counterexample and translator validation), SMT solver soundness, the stubs listed in DESIGN 3.3.'),
        'technique': cfg.get('technique', 'SMT-based symbolic execution of the real code (go/ssa -> SMT-LIB2, z3/cvc5), counterexamples replayed natively'),
    })
with open(os.path.join(os.path.dirname(HERE), 'MANIFEST.json'), 'w') as f:
    json.dump(man, f, indent=1)
print('MANIFEST.json: %d checks, %d not applicable' % (len(man['checks']), len(man['not_applicable'])))
