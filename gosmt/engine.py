"""Glue: dump /repo + harness to SSA JSON, run a harness symbolically,
discharge the obligations with an SMT solver."""
import hashlib
import json
import os
import subprocess
import sys
import tempfile
import time

import terms as TM
from terms import *  # noqa
import symexec
from symexec import Executor, Unsupported, load_program
import solve

VERIF = os.path.dirname(os.path.dirname(os.path.abspath(__file__)))
BIN = os.path.join(VERIF, 'bin', 'ssajson')
GOENV = dict(os.environ, GOWORK='off', GOFLAGS='-mod=mod', GOPROXY='off', GOSUMDB='off', GOTOOLCHAIN='local')


def build_dumper():
    src = os.path.join(VERIF, 'gosmt', 'ssajson')
    if os.path.exists(BIN) and os.path.getmtime(BIN) >= max(os.path.getmtime(os.path.join(src, f)) for f in os.listdir(src)):
        return
    os.makedirs(os.path.dirname(BIN), exist_ok=True)
    subprocess.run(['go', 'build', '-o', BIN, '.'], cwd=src, env=GOENV, check=True)


def dump(patterns, out=None, entries=None):
    """SSA of the harness packages `patterns` (relative to /verif/harness) and of
    everything they reach in /repo's current working tree."""
    build_dumper()
    if out is None:
        fd, out = tempfile.mkstemp(prefix='gosmt_', suffix='.json', dir=os.environ.get('GOSMT_TMP', '/tmp'))
        os.close(fd)
    cmd = [BIN, '-dir', os.path.join(VERIF, 'harness'), '-descend', 'strings,internal/stringslite', '-o', out]
    if entries:
        cmd += ['-entries', ','.join(entries)]
    cmd += list(patterns)
    r = subprocess.run(cmd, env=GOENV, stdout=subprocess.PIPE, stderr=subprocess.PIPE, universal_newlines=True)
    if r.returncode != 0:
        raise RuntimeError('ssajson failed (does /repo build?):\n' + r.stderr)
    return out


def load(patterns, entries=None):
    path = dump(patterns, entries=entries)
    try:
        return load_program(path)
    finally:
        os.unlink(path)


_ESC = {}


def escaping_sites():
    """file:line of the allocation sites of /repo that the gc compiler moves to the heap (go build -gcflags=-m)"""
    if 'set' not in _ESC:
        r = subprocess.run(['go', 'build', '-gcflags=-m', './20', './30', './31', './40'], cwd='/repo', env=GOENV, stdout=subprocess.PIPE, stderr=subprocess.STDOUT, universal_newlines=True)
        # site -> number of escaping nodes the compiler reports there (e.g. a make whose result is also boxed
        # into an interface is reported twice: two allocations)
        s = {}
        for line in r.stdout.splitlines():
            if 'escapes to heap' in line or 'moved to heap' in line:
                p = line.split(':')
                if len(p) >= 3 and p[0].endswith('.go'):
                    f = p[0][2:] if p[0].startswith('./') else p[0]
                    k = '/repo/%s:%s:%s' % (f, p[1], p[2])
                    s[k] = s.get(k, 0) + 1
        _ESC['set'] = s
    return _ESC['set']


def run_harness(prog, fname, tables=None, max_unwind=400, params=None, concrete=None):
    ex = Executor(prog, tables, max_unwind)
    ex.params = dict(params or {})
    ex.concrete = concrete
    ex.escaping = escaping_sites()
    ex.run_inits()
    ex.harness = fname
    t0 = time.time()
    ex.call_function(fname, [], TRUE, None)
    ex.exec_time = time.time() - t0
    return ex


class Query(object):
    """SMT-LIB script for a harness run: definitions once, one push/pop per obligation"""

    def __init__(self, ex, extra_roots=(), only=None):
        self.ex = ex
        obs = [o for i, o in enumerate(ex.obligations) if only is None or i in only]
        roots = list(ex.assumptions) + [o['viol'] for o in obs]
        for o in obs:
            if 'guard' in o:
                roots.append(o['guard'])
        roots += list(extra_roots)
        self.roots = roots
        self.text, self.vars = TM.smt_defs(roots)
        self.nnodes = len(TM.topo(roots))

    def preamble(self):
        lines = [self.text]
        for a in self.ex.assumptions:
            lines.append('(assert %s)' % TM.name(a))
        return '\n'.join(lines)


_PD = {}


def _pd_worker(idxs):
    g = _PD
    return discharge(g['ex'], g['kind'], g['timeout'], None, g['want_models'], set(idxs), 1)


def discharge(ex, kind='z3', timeout=600, log=None, want_models=True, only=None, workers=1):
    """returns list of dicts per obligation: status in unsat/sat/unknown, model"""
    idx_all = [i for i in range(len(ex.obligations)) if only is None or i in only]
    if workers > 1 and len(idx_all) > 40:
        # split the obligations over several solver processes
        import multiprocessing
        nw = min(workers, max(1, len(idx_all) // 20))
        chunks = [idx_all[i::nw] for i in range(nw)]
        _PD.clear()
        _PD.update({'ex': ex, 'kind': kind, 'timeout': timeout, 'want_models': want_models})
        with multiprocessing.Pool(nw) as pool:
            parts = pool.map(_pd_worker, chunks)
        res = {'vacuity': parts[0]['vacuity'], 'results': sorted([r for p in parts for r in p['results']], key=lambda r: r['index']),
               'nodes': max(p['nodes'] for p in parts), 'vars': parts[0]['vars'], 'solver_time': sum(p['solver_time'] for p in parts),
               'queries': sum(p['queries'] for p in parts)}
        return res
    q = Query(ex, only=only)
    s = solve.Solver(kind, timeout)
    s.send(q.preamble())
    s.sync(extra=120)
    out = []
    # vacuity: assumptions satisfiable
    st, _ = s.check(None)
    vac = {'assumptions_sat': st}
    results = []
    # implicit run-time checks (panics, bounds, nil, ...) are first tried in batches: one query for the
    # disjunction of a chunk; unsat discharges every member, otherwise the members are checked one by one
    batched = {}
    idxs = [i for i, o in enumerate(ex.obligations) if (only is None or i in only) and o['kind'] != 'assert']
    if len(idxs) > 8:
        CH = 64
        for c in range(0, len(idxs), CH):
            chunk = idxs[c:c + CH]
            t0 = time.time()
            st, _ = s.check('(or false %s)' % ' '.join(TM.name(ex.obligations[i]['viol']) for i in chunk))
            if s.errors:
                s.errors = []
                st = 'unknown'
            if st == 'unsat':
                for i in chunk:
                    batched[i] = (time.time() - t0) / len(chunk)
            if s.p.poll() is not None:
                s = solve.Solver(kind, timeout)
                s.send(q.preamble())
                s.sync(extra=120)
    for i, o in enumerate(ex.obligations):
        if only is not None and i not in only:
            continue
        if i in batched:
            results.append({'index': i, 'kind': o['kind'], 'label': o['label'], 'pos': o['pos'], 'fn': o['fn'], 'status': 'unsat', 'time': batched[i], 'model': None, 'batched': True})
            continue
        if s.p.poll() is not None:
            s = solve.Solver(kind, timeout)
            s.send(q.preamble())
            s.sync(extra=120)
        t0 = time.time()
        st, model = s.check(TM.name(o['viol']), want_model=want_models, vars_=sorted(q.vars))
        if st == 'unsat' and o.get('incomplete'):
            st = 'unknown'
        r = {'index': i, 'kind': o['kind'], 'label': o['label'], 'pos': o['pos'], 'fn': o['fn'], 'status': st, 'time': time.time() - t0, 'model': model}
        if o.get('incomplete'):
            r['errors'] = [o['incomplete']]
        if st == 'unsat' and o['kind'] == 'assert':
            # reachability witness: the assertion is reached under the assumptions
            st2, _ = s.check(TM.name(o['guard']))
            r['reachable'] = st2
        if s.errors:
            r['errors'] = list(s.errors)
            s.errors = []
        results.append(r)
        if log:
            log('  [%s] %-9s %-7s %.2fs %s' % (kind, o['kind'], st, r['time'], o['label'][:70]))
    s.close()
    return {'vacuity': vac, 'results': results, 'nodes': q.nnodes, 'vars': len(q.vars), 'solver_time': s.time, 'queries': s.queries}


if __name__ == '__main__':
    import argparse
    ap = argparse.ArgumentParser()
    ap.add_argument('pattern')
    ap.add_argument('func')
    ap.add_argument('--solver', default='z3')
    ap.add_argument('--timeout', type=int, default=300)
    a = ap.parse_args()
    t0 = time.time()
    prog = load([a.pattern])
    print('loaded in %.1fs' % (time.time() - t0))
    ex = run_harness(prog, a.func)
    print('executed in %.1fs: %d obligations, %d assumptions, %d terms, stats %s' % (ex.exec_time, len(ex.obligations), len(ex.assumptions), TM.nterms(), dict(ex.stats)))
    res = discharge(ex, a.solver, a.timeout, log=print)
    print(res['vacuity'], 'nodes', res['nodes'], 'solver_time %.2f' % res['solver_time'])
    for r in res['results']:
        if r['status'] != 'unsat':
            print('NOT PROVED', r['kind'], r['label'], r['pos'], r['status'], {k: v for k, v in (r['model'] or {}).items()})
