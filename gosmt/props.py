"""Per-property configuration, result aggregation, replay and evidence."""
import json
import os
import re
import subprocess
import time

HERE = os.path.dirname(os.path.abspath(__file__))
VERIF = os.path.dirname(HERE)

ALLV = ['h20', 'h30', 'h31', 'h40']

COMMON_ASSUMPTIONS = [
    'go/ssa (golang.org/x/tools v0.29.0) translation of the source is faithful to the gc compiler; amd64, 64-bit int, no FMA fusion',
    'gosmt symbolic executor and its rewriter (validated by native replay of every counterexample and by translator validation in setup)',
    'SMT solver soundness (z3 4.8.12; thorough tier re-decides with z3 5.1.0 and cvc5 1.0.3)',
    'stubs: sync.Pool.Get returns a New()-shaped value with arbitrary contents; errors.New returns a fresh distinct object; fmt.Sprintf is opaque',
]

PROPS = {
    'C07': {
        'level': 'model_checking',
        'pkgs': ALLV,
        'text': 'Set/Get/== on every reachable object and every (abbreviation, value) string pair of any length: inductive step over the API-level reachability invariant, decided by SMT over the SSA of the real Get/Set/validate',
        'bounds': 'the whole finite domain, decided by the solver without truncation: objects are all 2^32/2^48/2^72 raw states constrained by the reachability invariant; strings have arbitrary length (first 8 bytes explicit, longer strings only compared)',
        'solvers': {'quick': ['z3'], 'thorough': ['z3', 'z3new', 'cvc5']},
    },
    'C09': {
        'level': 'model_checking',
        'pkgs': ALLV,
        'reuse': ['C09_', 'C07_Set', 'C07_Zero'],
        'text': 'Get/Set accept exactly the specification metric abbreviations and values for strings of any length on every reachable object; reachable objects are well formed: the zero value satisfies the reachability invariant (every Get legal and non-empty, object rebuilt by Set from its Gets) and every Set, successful or failed, preserves it (inductive step shared with C07), so no history reaches a spare code',
        'bounds': 'the whole finite domain for Get/Set (arbitrary-length strings, all reachable objects)',
        'solvers': {'quick': ['z3'], 'thorough': ['z3', 'z3new', 'cvc5']},
    },
}

PROPS['C16'] = {
    'level': 'model_checking',
    'pkgs': ['h40'],
    'text': 'Nomenclature() equals CVSS-B[T][E] computed from the Get values of E and of the 14 environmental metrics, on every reachable v4.0 object',
    'bounds': 'the whole finite domain, decided by the solver without truncation: all 2^72 raw states constrained by the reachability invariant (267,483,013,447,680,000 objects)',
    'solvers': {'quick': ['z3'], 'thorough': ['z3', 'z3new', 'cvc5']},
}
PROPS['C15'] = {
    'level': 'model_checking',
    'pkgs': ['hcross'],
    'text': 'Rating of the 3.0, 3.1 and 4.0 packages equals the specification scale and the three agree, for every float64 bit pattern except NaN (symbolic float64, IEEE comparisons in the solver)',
    'bounds': 'the whole finite domain, decided by the solver without truncation: the score is one symbolic (_ FloatingPoint 11 53) value',
    'solvers': {'quick': ['z3'], 'thorough': ['z3', 'z3new', 'cvc5']},
}
FP_NOTE = ('Floating point is decided by exhaustive case analysis with solver-evaluated IEEE arithmetic: the solver enumerates the tuples of the '
           'integer->float frontier per bit-field group (final unsat = coverage certificate), the cube set is their product (a superset of the reachable tuples), '
           'per cube the FP expression over literal operands is folded by z3\'s rewriter and cross-checked by a Python IEEE-754 evaluation; failing cubes are '
           'confirmed by a solver query for a concrete object and replayed natively.')
PROPS['C03'] = {
    'level': 'model_checking',
    'pkgs': ['h30', 'h31'],
    'text': 'v3.0/v3.1 BaseScore, TemporalScore, EnvironmentalScore equal the exact-rational evaluation of the FIRST equations (and Impact/Exploitability within 1e-9) on every reachable object. ' + FP_NOTE,
    'bounds': 'the whole finite domain, decided by the solver without truncation: complete over the 573,308,928,000 objects of each version (all frontier cubes enumerated, coverage certified by the solver)',
    'solvers': {'quick': ['z3'], 'thorough': ['z3']},
    'per_harness': {'.': {'handler': 'fp_tabulate'}},
    'technique': 'SMT-driven cube-and-conquer over the SSA of the real scoring code: solver-enumerated frontier cubes (AllSAT + coverage certificate), solver-folded floating point per cube, exact-rational specification oracle',
    'assumptions': ['oracle: /verif/spec/cvss_spec.py, exact rational transcription of the FIRST v3.0/v3.1 equations'],
}
PROPS['C05'] = {
    'level': 'model_checking',
    'pkgs': ['h20'],
    'text': 'v2.0 BaseScore, TemporalScore, EnvironmentalScore equal the exact-rational evaluation of the guide equations rounded to one decimal (either neighbour on exact ties), Impact/Exploitability within 1e-9, on every reachable object. ' + FP_NOTE,
    'bounds': 'the whole finite domain, decided by the solver without truncation: complete over the 139,968,000 v2.0 objects (all frontier cubes enumerated, coverage certified by the solver)',
    'solvers': {'quick': ['z3'], 'thorough': ['z3']},
    'per_harness': {'.': {'handler': 'fp_tabulate'}},
    'technique': PROPS['C03']['technique'],
    'assumptions': ['oracle: /verif/spec/cvss_spec.py, exact rational transcription of the CVSS v2.0 guide equations (section 3.2); ties of round_to_1_decimal accept either neighbour'],
}
PROPS['C10'] = {
    'level': 'model_checking',
    'pkgs': ['h30', 'h31'],
    'text': 'v3 BaseScore / TemporalScore / EnvironmentalScore are functions of the effective metric values only (Modified metric if defined else base metric; X as the default): 2-safety decided over the complete solver-enumerated cube table (same effective class => same folded score), violations confirmed by a solver query for two concrete objects and replayed natively. ' + FP_NOTE,
    'bounds': 'the whole finite domain, decided by the solver without truncation: every pair of the 573,308,928,000 objects per version with equal effective values (v4.0 part: see C04/C10 v4 harness when present)',
    'solvers': {'quick': ['z3'], 'thorough': ['z3']},
    'per_harness': {'.': {'handler': 'fp_tabulate'}},
    'technique': PROPS['C03']['technique'] + '; relational (2-safety) check over the cube table',
}
PROPS['C11'] = {
    'level': 'model_checking',
    'pkgs': ['h20', 'h30', 'h31'],
    'text': 'every scoring method returns, without panicking, a finite float64 equal to k/10 for an integer k in range, accepted by Rating: decided per frontier cube on the solver-folded value, panic arms discharged by SMT. ' + FP_NOTE,
    'bounds': 'the whole finite domain, decided by the solver without truncation: all reachable objects of v2.0, v3.0, v3.1 (v4.0 when its harness is present)',
    'solvers': {'quick': ['z3'], 'thorough': ['z3']},
    'per_harness': {'.': {'handler': 'fp_tabulate'}},
    'technique': PROPS['C03']['technique'],
}
PROPS['C12'] = {
    'level': 'model_checking',
    'pkgs': ['h20', 'h30', 'h31'],
    'text': 'one severity step up in one (effective) metric never lowers the score: decided over the complete solver-enumerated cube table of the real scoring code (per staging level for the environmental score), violations confirmed by a solver query for two concrete objects and replayed natively. ' + FP_NOTE,
    'bounds': 'the whole finite domain, decided by the solver without truncation: all effective classes of v3.1 (3 scores), v2.0 and v3.0 (base, temporal)',
    'solvers': {'quick': ['z3'], 'thorough': ['z3']},
    'per_harness': {'.': {'handler': 'fp_tabulate'}},
    'technique': PROPS['C03']['technique'] + '; relational (2-safety) check over the cube table',
}
PARSER_PARAMS = {
    'h3[01]': {'quick': {'params': {'PARSE_N': 22, 'TAIL_N': 12}}, 'thorough': {'params': {'PARSE_N': 30, 'TAIL_N': 18}}},
    'h20': {'quick': {'handler': 'plain', 'params': {'PARSE_N': 12, 'TAIL_N': 6}}, 'thorough': {'handler': 'plain', 'params': {'PARSE_N': 18, 'TAIL_N': 12}}},
    'h40': {'quick': {'handler': 'plain', 'params': {'PARSE_N': 20, 'TAIL_N': 6}}, 'thorough': {'handler': 'plain', 'params': {'PARSE_N': 30, 'TAIL_N': 12}}},
}
# thorough tier: the all-bytes harnesses of v3.x are the longest single jobs; discharge them in parallel
PARSER_PARAMS[r'h3[01]\.C\d\d_(Accept|Values|Parse)(Shaped)?$'] = {'quick': {}, 'thorough': {'handler': 'plain'}}
# element-structured inputs (harness structInput): one run per SHAPE; each decimal digit is the length of one
# '/'-separated element after the canonical base part, every byte of an element arbitrary except '/'
STRUCT_SHAPES = {
    'h40': {'quick': [55, 345], 'thorough': [55, 345, 3444, 4445, 5555, 555555, 343345, 37, 3457]},
    'h3[01]': {'quick': [555, 344555], 'thorough': [555, 344555, 444444, 555555, 345345345, 344444555544, 544544544544]},
    'h20': {'quick': [344, 555, 54444], 'thorough': [344, 345, 354, 355, 444, 455, 545, 555, 54444, 55555, 65555, 64545, 34454444, 55565555, 45564545, 35465454]},
}
for _k, _v in STRUCT_SHAPES.items():
    PARSER_PARAMS[_k + r'\.C\d\d_\w+Struct$'] = {t: {'variants': [{'SHAPE': x} for x in xs]} for t, xs in _v.items()}
# single-edit inputs (harnesses *Mutated): the canonical base part (arbitrary values) with one byte replaced by an
# arbitrary byte (MUT=0), one arbitrary byte inserted (MUT=1) or one byte deleted (MUT=2), at every position
BASE_LEN = {'h20': 26, 'h3[01]': 44, 'h40': 63}
for _k, _n in BASE_LEN.items():
    _vars = [{'MUT': m, 'POS0': p0, 'CHUNK': 16} for m in (0, 1, 2) for p0 in range(0, _n + 1, 16)]
    PARSER_PARAMS[_k + r'\.C\d\d_\w+Mutated$'] = {'handler': None, 'variants': _vars}
    PARSER_PARAMS[_k + r'\.C\d\d_\w+Dropped$'] = {'handler': None}
PARSER_BOUNDS = ('two input spaces per version, both decided completely by the solver: (a) every byte string of length <= PARSE_N; (b) "shaped" strings: the canonical base part '
                 '(header, mandatory metrics in specification order) with every VALUE an arbitrary byte other than \'/\', followed by an arbitrary byte string of length <= TAIL_N '
                 '(so that accepted vectors, optional metrics, repeated/unknown/misplaced elements and trailing garbage are all reached). quick: v2 12/6, v3.x 22/12, v4 20/6; '
                 'thorough: v2 18/12, v3.x 30/18, v4 30/12; (c) "element-structured" strings: the same base part followed by k elements of fixed lengths (one run per SHAPE, '
                 'each digit an element length; every element byte arbitrary except \'/\'), which reaches optional parts of up to 12 elements: quick v2 344,555,54444; v3.x 555,344555; v4 55,345; '
                 'thorough: see STRUCT_SHAPES in gosmt/props.py; (d) the base part with ONE mandatory element left out (any); (e) every single-byte edit of the base part '
                 '(arbitrary values): any byte replaced by an arbitrary byte, an arbitrary byte inserted at any position, any byte deleted. Longer strings and other shapes are outside the claim')
PROPS['C01'] = {
    'level': 'model_checking',
    'pkgs': ALLV,
    'text': 'bounded model checking of the real ParseVector (and split/splitCouple/strings.Cut/kvm.Set/Set/validate, sync.Pool stub) against a reference recogniser written from the grammar: accept <=> grammar accepts, (object, error) nil-ness, and no panic / out-of-range index / failed type assertion on any path',
    'bounds': PARSER_BOUNDS,
    'solvers': {'quick': ['z3'], 'thorough': ['z3', 'z3new']},
    'timeout': {'quick': 900, 'thorough': 1200},
    'per_harness': PARSER_PARAMS,
    'technique': 'SMT-based bounded model checking of the real parser (go/ssa -> SMT-LIB2, z3) against a reference recogniser, counterexamples replayed natively',
}
PROPS['C06'] = {
    'level': 'model_checking',
    'pkgs': ALLV,
    'text': 'after a successful ParseVector(s) every Get(m) equals the value the reference tokeniser reads for m in s (not-defined when absent), for all inputs of the shaped and element-structured spaces (the all-bytes space (a) contains no accepted string and is left to C01)',
    'bounds': PARSER_BOUNDS,
    'solvers': {'quick': ['z3'], 'thorough': ['z3', 'z3new']},
    'timeout': {'quick': 900, 'thorough': 1200},
    'per_harness': PARSER_PARAMS,
    'technique': PROPS['C01']['technique'],
}


PROPS['C04'] = {
    'level': 'model_checking',
    'pkgs': ['h40'],
    'text': 'v4.0 Score equals the specification MacroVector algorithm (exact rationals, round half up) on every reachable object, and depends on the object only through the effective values (v4.0 part of C10): the real Score/macroVector/lookupMV/severityDistance code is executed symbolically; its integer->float frontier (MacroVector levels, severity-distance sums, shortcut) is tabulated and folded by the solver; the joint table (frontier tuple, effective severity levels of the 15 scoring metrics) is derived from solver-enumerated bit-field groups by exact integer evaluation over their product; every one of the 15,116,544 effective classes is compared with the exact oracle. ' + FP_NOTE,
    'bounds': 'the whole finite domain, decided by the solver without truncation: complete over the 267,483,013,447,680,000 v4.0 objects (15,116,544 effective classes x defined/not-defined variants; coverage of every bit-field group certified by the solver)',
    'solvers': {'quick': ['z3'], 'thorough': ['z3']},
    'per_harness': {'.': {'handler': 'fp_oracle'}},
    'technique': PROPS['C03']['technique'] + '; integer part evaluated exactly over the product of solver-enumerated bit-field groups',
    'assumptions': ['oracle data: /verif/spec/v4_data.json extracted from claircore\'s independent port of the FIRST calculator (lookup table, highest-severity vectors, depths); algorithm in /verif/spec/cvss4_spec.py written from the specification text',
                    'the cube set is the product of the per-group tuple sets and each group is enumerated against the assumption conjuncts that mention its input bits only: a superset of the reachable cubes (sound); mismatches are confirmed by a solver query for a concrete object and replayed natively'],
}
# v4.0 part of C10: the C04 oracle harness decides it (the oracle sees the effective severity levels only, so
# agreement on every solver-derived row means the score depends on the effective values only)
PROPS['C10']['pkgs'] = ['h30', 'h31', 'h40']
PROPS['C10']['reuse'] = ['C10_', 'C04_Score']
PROPS['C10']['per_harness'] = {'h40': {'handler': 'fp_oracle'}, 'h30|h31': {'handler': 'fp_tabulate'}}
PROPS['C10']['text'] += ' v4.0 Score: the C04 oracle harness is run as part of this check: every solver-derived row (frontier tuple x effective severity levels) has the exact specification score of its effective class, hence the score depends on the object only through the effective values, and supplemental metrics do not matter.'
PROPS['C10']['bounds'] = 'the whole finite domain, decided without truncation: every pair of the 573,308,928,000 v3.x objects per version with equal effective values; all 267,483,013,447,680,000 v4.0 objects through their 15,116,544 effective classes'
PROPS['C10']['assumptions'] = list(PROPS['C04']['assumptions'])
PROPS['C11']['pkgs'] = ['h20', 'h30', 'h31', 'h40']
PROPS['C12']['pkgs'] = ['h20', 'h30', 'h31', 'h40']
PROPS['C12']['per_harness'] = {'h40': {'handler': 'fp_oracle'}, 'h20|h30|h31': {'handler': 'fp_tabulate'}}
PROPS['C12']['bounds'] = 'the whole finite domain, decided without truncation: all effective classes of v3.1 (3 scores), v2.0 and v3.0 (base, temporal) and all 15,116,544 effective classes of v4.0 (15 metrics)'
PROPS['C13'] = {
    'level': 'model_checking',
    'pkgs': ['hcross'] + ALLV,
    'text': 'no string is accepted by two versions: all four real parsers are executed symbolically on the same input; (a) every byte string up to PARSE_N, (b) for each version, every string with that version\'s header and canonical base part (arbitrary values) and an arbitrary tail is rejected by the three other parsers',
    'bounds': 'quick: (a) PARSE_N = 10, (b) tail <= 6; thorough: 16 / 12. The second half of the property (Vector() output) follows from (b) together with C08 (Vector() output starts with the version\'s header and canonical base part); not checked directly',
    'solvers': {'quick': ['z3'], 'thorough': ['z3', 'z3new']},
    'timeout': {'quick': 900, 'thorough': 1200},
    'per_harness': {'.': {'quick': {'params': {'PARSE_N': 10, 'TAIL_N': 6}}, 'thorough': {'params': {'PARSE_N': 16, 'TAIL_N': 12}}}, 'OneVersion': {'handler': 'plain'},
                    'C13_VectorHeader': {'handler': 'groups_decide', 'ignore_kinds': ['growth']}},
    'technique': PROPS['C01']['technique'],
}
PROPS['C14'] = {
    'level': 'model_checking',
    'pkgs': ALLV,
    'text': 'PARTIAL (sequential part): (i) v2.0 ParseVector gives the same result whatever an earlier call left in the pooled scratch slice (sync.Pool.Get modelled as returning arbitrary contents, two calls compared); (ii) confinement: in every symbolic run of every check no exported function stores to a package-level variable after initialisation and nothing is accessed after Put (obligations "confinement"/"released" of all parser harnesses); interleavings and the Go memory model are NOT decided by the solver: race freedom is argued from (i)-(ii), value-type receivers and the sync.Pool contract',
    'bounds': 'inputs as for C01 (PARSE_N / TAIL_N); concurrency itself is outside the claim',
    'solvers': {'quick': ['z3'], 'thorough': ['z3', 'z3new']},
    'timeout': {'quick': 900, 'thorough': 1200},
    'per_harness': PARSER_PARAMS,
    'technique': PROPS['C01']['technique'],
}


PROPS['C08'] = {
    'level': 'model_checking',
    'pkgs': ALLV,
    'text': '(a) Vector() equals the canonical serialisation of the object (reference serialiser written from the property text) on EVERY reachable object: both buffers are kept as sequences of conditional bytes and compared structurally, the conditions are proved pairwise equivalent by the solver - no length bound; (b) the object ParseVector returns holds exactly the values written in the string (the C06 lemmas on the shaped and element-structured inputs, run as part of this check); (a)+(b) give: parse-then-serialise is the canonical spelling of the input, for inputs within the parser bounds',
    'bounds': '(a) the whole finite domain (all reachable objects); (b) the parser bounds of C01/C06. Idempotence and "canonical input is a fixpoint" follow from (a)+(b) and are not asserted separately',
    'solvers': {'quick': ['z3'], 'thorough': ['z3', 'z3new']},
    'technique': 'SMT over the symbolically executed Vector()/lenVec/append code: structural comparison of append-only buffers, condition equivalences discharged by z3',
    'reuse': ['C08_', 'C06_ValuesShaped', 'C06_ValuesStruct'],
    'per_harness': dict(PARSER_PARAMS, **{'C08_Canonical': {'handler': 'groups_decide', 'ignore_kinds': ['growth']}}),
    'timeout': {'quick': 900, 'thorough': 1200},
}


PROPS['C17'] = {
    'level': 'model_checking',
    'pkgs': ALLV,
    'text': 'PARTIAL (hybrid): along every path of Vector(), successful ParseVector (shaped inputs), Get/Set on a known metric, the scoring methods, Rating and Nomenclature, the number of executed allocation sites that the gc compiler reports as heap-allocated (go build -gcflags=-m, regenerated from the working tree on every run) is within the documented budget (Vector == 1, ParseVector <= 1, others 0); and Vector() never appends beyond the capacity lenVec computed (no reallocation), decided for every reachable object over the product of solver-enumerated bit-field groups. Counterexamples are replayed natively with testing.AllocsPerRun',
    'bounds': 'Vector/Get/Set/scores: all reachable objects, strings of any length; ParseVector: the shaped inputs of C01 (TAIL_N). Trusted, outside the claim: the compiler\'s escape analysis report, allocations inside the runtime and sync.Pool (steady state assumed)',
    'solvers': {'quick': ['z3'], 'thorough': ['z3', 'z3new']},
    'timeout': {'quick': 900, 'thorough': 1200},
    'per_harness': {'h3[01]': {'quick': {'handler': 'groups_decide', 'params': {'TAIL_N': 10}}, 'thorough': {'handler': 'groups_decide', 'params': {'TAIL_N': 16}}},
                    'h20': {'quick': {'handler': 'groups_decide', 'params': {'TAIL_N': 6}}, 'thorough': {'handler': 'groups_decide', 'params': {'TAIL_N': 12}}},
                    'h40': {'quick': {'handler': 'groups_decide', 'params': {'TAIL_N': 6}}, 'thorough': {'handler': 'groups_decide', 'params': {'TAIL_N': 12}}},
                    'C17_Scores': {'skip_h40_score': True}},
    'technique': 'SMT-based symbolic execution counting compiler-reported heap allocation sites per path; capacity arithmetic decided over solver-enumerated bit-field groups; native replay with testing.AllocsPerRun',
}


PROPS['C18'] = {
    'level': 'model_checking',
    'pkgs': ALLV,
    'text': 'documented error values: Get/Set on an unknown abbreviation return *ErrInvalidMetric with that abbreviation and Set with an illegal value ErrInvalidMetricValue (strings of any length, all reachable objects); ParseVector: wrong/missing header -> ErrInvalidCVSSHeader (v3, v4), and for strings with exactly one defect according to a reference single-defect classifier (written from the property text; strings with two or more defects are left unconstrained) the documented error with the right Abv',
    'bounds': 'Get/Set: the whole finite domain, strings of any length. ParseVector: ' + PARSER_BOUNDS,
    'solvers': {'quick': ['z3'], 'thorough': ['z3', 'z3new']},
    'timeout': {'quick': 900, 'thorough': 1200},
    'per_harness': dict(PARSER_PARAMS, **{'C18_Parse$': {'quick': {'skip': True}, 'thorough': {}}}),
    'technique': PROPS['C01']['technique'],
}


PROPS['C02'] = {
    'level': 'model_checking',
    'pkgs': ALLV,
    'reuse': ['C08_Canonical', 'C01_AcceptShaped', 'C01_AcceptStruct', 'C06_ValuesShaped', 'C06_ValuesStruct', 'C07_Eq', 'C07_Set', 'C07_Zero'],
    'text': 'decided as the conjunction of solver-checked lemmas on the real code: (a) Vector(c) is the canonical serialisation of c for EVERY reachable object (C08_Canonical, no bound); (b) ParseVector accepts the canonical strings within the shaped-input bound (C01_AcceptShaped); (c) the parsed object returns on every Get the value written in the string (C06_ValuesShaped); (d) objects with equal Get values are == and every object reachable through Set/zero value satisfies the invariant (C07). (a)-(d) give ParseVector(Vector(c)) == c with equal Gets. A counterexample of any lemma is replayed natively',
    'bounds': '(a), (d): the whole finite domain. (b), (c): canonical vectors whose optional part is at most TAIL_N bytes (quick: v2 6, v3 12, v4 6; thorough 12/18/12) or whose optional elements have the lengths of one of the element-structured SHAPEs (STRUCT_SHAPES in gosmt/props.py; up to 12 elements), i.e. objects with few defined optional metrics or with one of those length patterns; objects with other canonical spellings are outside the parser lemmas and hence outside the claim',
    'solvers': {'quick': ['z3'], 'thorough': ['z3', 'z3new']},
    'timeout': {'quick': 900, 'thorough': 1200},
    'per_harness': dict(PARSER_PARAMS, **{'C08_Canonical': {'handler': 'groups_decide', 'ignore_kinds': ['growth']}}),
    'technique': PROPS['C01']['technique'] + '; composition of lemmas',
}
PROPS['C17']['per_harness'].update({k: v for k, v in PARSER_PARAMS.items() if 'Struct' in k})
# C06_Values (every byte string up to PARSE_N) is not run in either tier: no string that short is accepted
# (shortest vectors: 26 / 44 / 63 bytes), so it could only re-prove C01's "rejected" 14-33 times over
PROPS['C06']['per_harness'] = dict(PARSER_PARAMS, **{'C06_Values$': {'skip': True}})
PROPS['C14']['per_harness'] = dict(PARSER_PARAMS, **{'h20.C14_PoolIndependence$': {'quick': {'params': {'PARSE_N': 8}}, 'thorough': {'params': {'PARSE_N': 14}}},
                                                     'C14_VectorStable': {'handler': 'groups_decide', 'ignore_kinds': ['growth']}})


def harnesses(pid, tier, hf):
    cfg = PROPS[pid]
    out = []
    prefixes = tuple(cfg.get('reuse', [])) or (pid + '_',)
    for pkg in cfg['pkgs']:
        for f in sorted(hf.get(pkg, ())):
            if not f.startswith(prefixes):
                continue
            h = {'pkg': pkg, 'func': 'verifharness/%s.%s' % (pkg, f)}
            over = cfg.get('per_harness', {})
            for pat, kv in over.items():
                if re.search(pat, h['func']):
                    kvt = kv.get(tier, kv) if isinstance(kv, dict) and ('quick' in kv or 'thorough' in kv) else kv
                    h.update(kvt)
            if h.get('skip'):
                continue
            if h.get('variants'):
                # one run per parameter variant (e.g. the SHAPE of the element-structured inputs)
                for var in h['variants']:
                    hv = dict(h)
                    hv.pop('variants')
                    hv['params'] = dict(h.get('params') or {}, **var)
                    hv['variant'] = ','.join('%s=%s' % kv for kv in sorted(var.items()))
                    out.append(hv)
                continue
            out.append(h)
    return out


def load_known():
    path = os.path.join(VERIF, 'known_findings.jsonl')
    out = []
    if os.path.exists(path):
        for line in open(path):
            line = line.strip()
            if line and not line.startswith('#'):
                out.append(json.loads(line))
    return out


def _vals(model):
    vals = {}
    for k, v in (model or {}).items():
        if isinstance(v, bool):
            vals[k] = int(v)
        elif isinstance(v, (tuple, list)):
            vals[k] = int(v[1])
        else:
            vals[k] = int(v)
    return vals


def model_json(harness, rec, tables=None):
    d = {'harness': harness, 'label': rec.get('label'), 'kind': rec.get('kind'), 'pos': rec.get('pos'), 'values': _vals(rec.get('model')),
         'tables': tables or rec.get('tables') or {}}
    if rec.get('oracle'):
        d['oracle'] = rec['oracle']
    if rec.get('pair'):
        d['pair'] = [_vals(m) for m in rec['pair']]
        d['relation'] = rec.get('relation')
        d['values'] = d['pair'][0]
        d['why'] = rec.get('why')
    return d


def known_match(kf, pid, harness, rec, replay_out):
    if kf.get('status') == 'fixed':
        return False
    if kf.get('property') != pid:
        return False
    if kf.get('harness') and kf['harness'] != harness:
        return False
    if kf.get('label') and kf['label'] != rec.get('label'):
        return False
    m = kf.get('match')
    if m:
        sig = rec.get('signature') or {}
        for k, v in m.items():
            if sig.get(k) != v:
                return False
    return True


def finish(pid, tier, seed, results, exe, tmp, t0, log, write_evidence=True):
    cfg = PROPS[pid]
    known = load_known()
    rdir = os.path.join(VERIF, 'replays', pid)
    n_ob = n_unsat = n_sat = n_unknown = 0
    violations = []
    known_hits = []
    unreproduced = []
    inconclusive = []
    samples = []
    funcs = {}
    solver_time = {}
    queries = 0
    vac = []
    unreach = []
    reached = set()
    for r in results:
        hfunc = r['harness']
        hname = hfunc + ('#' + r['variant'] if r.get('variant') else '')
        if r['status'] != 'ok':
            inconclusive.append({'harness': hname, 'reason': r.get('error', r['status'])})
            if r.get('trace'):
                log(r['trace'])
            continue
        for k, v in (r.get('funcs') or {}).items():
            funcs[k] = funcs.get(k, 0) + v
        for k, v in (r.get('solver_time') or {}).items():
            solver_time[k] = round(solver_time.get(k, 0) + v, 3)
        queries += sum((r.get('queries') or {}).values())
        for k, v in (r.get('vacuity') or {}).items():
            if v.get('assumptions_sat') != 'sat':
                inconclusive.append({'harness': hname, 'reason': 'assumptions not shown satisfiable by %s (%s): vacuous' % (k, v.get('assumptions_sat'))})
        for rec in r['results']:
            n_ob += 1
            st = rec['status']
            if st == 'unsat':
                n_unsat += 1
                blabel = rec['label'].replace(' [reachability of the assertion]', '')
                if rec['kind'] == 'assert' and rec.get('reachable') not in (None, 'sat'):
                    unreach.append((r.get('pkg'), blabel, hname, rec.get('reachable')))
                elif rec['kind'] == 'assert':
                    reached.add((r.get('pkg'), blabel))
                if len(samples) < 6 and rec['kind'] == 'assert':
                    samples.append({'harness': hname, 'obligation': rec['label'], 'kind': rec['kind'], 'verdict': 'unsat', 'by_solver': rec.get('by_solver'), 'reachability_witness': rec.get('reachable')})
            elif st == 'sat':
                n_sat += 1
                os.makedirs(rdir, exist_ok=True)
                path = os.path.join(rdir, '%s_%d.json' % (re.sub(r'[^A-Za-z0-9_]', '_', hname.split('/')[-1]), rec['index']))
                mj = model_json(hfunc, rec)
                for pk, pv in (r.get('params') or {}).items():
                    mj['values']['param_' + pk] = pv
                    for pm in mj.get('pair', []):
                        pm['param_' + pk] = pv
                with open(path, 'w') as f:
                    json.dump(mj, f, indent=1, sort_keys=True)
                try:
                    p = subprocess.run([exe, path], stdout=subprocess.PIPE, stderr=subprocess.STDOUT, universal_newlines=True, timeout=300)
                    rc, out = p.returncode, p.stdout
                except subprocess.TimeoutExpired:
                    rc, out = -1, 'replay timeout'
                if rc == 3:
                    kf = [k for k in known if known_match(k, pid, hfunc, rec, out)]
                    if kf:
                        known_hits.append((kf[0], path))
                    else:
                        violations.append((hname, rec, path, out))
                else:
                    unreproduced.append({'harness': hname, 'obligation': rec['label'], 'kind': rec['kind'], 'replay_rc': rc, 'replay': out.strip()[-400:], 'model': path})
            else:
                n_unknown += 1
                inconclusive.append({'harness': hname, 'reason': 'obligation "%s" (%s at %s): solver verdict %s %s' % (rec['label'], rec['kind'], rec['pos'], st, rec.get('by_solver'))})
    vacuous = []
    for pkg, label, hname, st in sorted(set(unreach)):
        if (pkg, label) in reached:
            vacuous.append({'harness': hname, 'assertion': label, 'note': 'not reachable in this input space; reached in another harness of the same package'})
        else:
            inconclusive.append({'harness': hname, 'reason': 'assertion "%s" not shown reachable (%s) in any harness of %s' % (label, st, pkg)})
    for kf, path in known_hits:
        log('KNOWN-FINDING: property=%s %s' % (pid, kf.get('what', '')))
    for hname, rec, path, out in violations:
        log('counterexample for "%s" (%s) in %s reproduces natively:\n%s' % (rec['label'], rec['kind'], hname, out.strip()))
        log('VIOLATION property=%s replay=%s' % (pid, path))
    for u in unreproduced:
        log('note: solver model for "%s" in %s does not reproduce natively (rc=%s): treated as inconclusive, not an alarm' % (u['obligation'], u['harness'], u['replay_rc']))
    for i in inconclusive:
        log('inconclusive: %s: %s' % (i['harness'], i['reason']))
    wall = time.time() - t0
    if write_evidence:
        ev = {
            'property_id': pid,
            'tier': tier,
            'seed': seed,
            'level': cfg['level'],
            'coverage': {
                'obligations': n_ob,
                'discharged': n_unsat,
                'checker_cmd': './check %s --tier %s' % (pid, tier),
                'trusted_base': COMMON_ASSUMPTIONS,
                'evaluations': max(queries, 1),
                'distinct_nontrivial': n_unsat,
                'rule': 'one SMT query per proof obligation (assertion, explicit panic, index/slice bounds, nil dereference, type assertion, division by zero, unwinding) that did not fold to false syntactically; distinct = distinct obligations proved unsat; each is non-trivial because trivially-false obligations are folded away before they are counted',
                'samples': samples or [{'note': 'no assertion discharged'}],
                'explanation': cfg['text'],
                'bounds': cfg.get('bounds', ''),
                'harnesses': [{'harness': r['harness'], 'variant': r.get('variant'), 'params': r.get('params'), 'status': r['status'], 'obligations': len(r.get('results', [])),
                               'unsat': sum(1 for x in r.get('results', []) if x['status'] == 'unsat'),
                               'exec_s': r.get('exec_s'), 'solver_s': r.get('solver_time'), 'dag_nodes': r.get('nodes'),
                               'ssa_stats': r.get('stats'), 'inputs': r.get('inputs'), 'note': r.get('note'), 'tabulation': r.get('tabulation')} for r in results],
                'cubes': sum((r.get('tabulation') or {}).get('cubes', 0) for r in results),
                'functions_encoded': funcs,
                'solver_time_s': solver_time,
                'solver_queries': queries,
                'sat_models': n_sat,
                'unknown': n_unknown,
                'inconclusive': inconclusive,
                'unreproduced_models': unreproduced,
                'assertions_vacuous_in_one_space': vacuous,
                'known_findings_hit': [k.get('what') for k, _ in known_hits],
                # true only for the checks whose domain is finite and decided completely (no length bound, no sampling)
                'exhaustive': bool(cfg.get('exhaustive')) and n_unknown == 0 and n_sat == 0 and not inconclusive,
            },
            'assumptions': COMMON_ASSUMPTIONS + cfg.get('assumptions', []),
            'wall_s': round(wall, 2),
            'violations': len(violations),
        }
        evdir = os.environ.get('VERIF_EVIDENCE_DIR') or os.path.join(VERIF, 'evidence')
        os.makedirs(evdir, exist_ok=True)
        with open(os.path.join(evdir, pid + '.json'), 'w') as f:
            json.dump(ev, f, indent=1, sort_keys=True)
    log('%s tier=%s: %d obligations, %d unsat, %d sat (%d reproduced, %d known), %d unknown, %d inconclusive notes, %.1fs' %
        (pid, tier, n_ob, n_unsat, n_sat, len(violations) + len(known_hits), len(known_hits), n_unknown, len(inconclusive), wall))
    return 1 if violations else 0


for _p in ('C03', 'C04', 'C05', 'C07', 'C09', 'C10', 'C11', 'C12', 'C15', 'C16'):
    PROPS[_p]['exhaustive'] = True

NOT_APPLICABLE = {}
for _p in ['C%02d' % i for i in range(1, 19)]:
    if _p not in PROPS:
        NOT_APPLICABLE[_p] = 'check not built yet in this session (solver-based harness pending); see DESIGN.md section 6'
