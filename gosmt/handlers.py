"""special job handlers for check.py (run in the main process)"""
import os
import sys
import time

import terms as TM
from terms import *  # noqa
import engine
import tabulate
from symexec import Unsupported

sys.path.insert(0, os.path.join(engine.VERIF, 'spec'))
import cvss_spec  # noqa


def has_zone(t, memo):
    r = memo.get(t.id)
    if r is None:
        r = t.sort == 'F' or t.op in tabulate.ZONE_OPS or any(has_zone(a, memo) for a in t.args)
        memo[t.id] = r
    return r


def fp_tabulate(prog, job, out, log=print):
    """harness with floating-point assertions: plain obligations go to the SMT
    solver, FP assertions are decided by frontier cubes (tabulate.py)"""
    ex = engine.Executor(prog, None, job.get('unwind', 400))
    ex.stage_re = job.get('stage_re', r'(?i)round|Score$')
    ex.run_inits()
    t0 = time.time()
    ex.call_function(job['func'], [], TRUE, None)
    out['exec_s'] = round(time.time() - t0, 3)
    out['stats'] = dict(ex.stats)
    out['funcs'] = dict(ex.funcs_encoded)
    out['inputs'] = ex.inputs
    memo = {}
    for a in ex.assumptions:
        if has_zone(a, memo):
            raise Unsupported('floating-point assumption')
    zone_obs = [o for o in ex.obligations if has_zone(o['viol'], memo)]
    plain = [i for i, o in enumerate(ex.obligations) if not has_zone(o['viol'], memo)]
    out['results'] = []
    if plain:
        r = engine.discharge(ex, job['solvers'][0], job['timeout'], only=set(plain))
        out['vacuity'] = {job['solvers'][0]: r['vacuity']}
        out['solver_time'] = {job['solvers'][0]: round(r['solver_time'], 3)}
        out['queries'] = {job['solvers'][0]: r['queries']}
        out['nodes'] = r['nodes']
        for rr in r['results']:
            rec = {k: rr.get(k) for k in ('index', 'kind', 'label', 'pos', 'fn', 'status', 'model', 'reachable', 'errors')}
            rec['time'] = round(rr['time'], 3)
            rec['by_solver'] = {job['solvers'][0]: rr['status']}
            out['results'].append(rec)
    if zone_obs:
        roots = [o['viol'] for o in zone_obs]
        rep = tabulate.tabulate(ex.assumptions, roots, cvss_spec.lookup, log, use_z3=job.get('use_z3', True), workers=job.get('workers', 16),
                                solver=job['solvers'][0], limit=job.get('cube_limit', tabulate.LIMIT), extras=[t for _, t in getattr(ex, 'extras', [])],
                                special=job.get('_special'))
        out['tabulation'] = {k: v for k, v in rep.items() if k != 'failures'}
        out.setdefault('queries', {})
        out['queries'][job['solvers'][0]] = out['queries'].get(job['solvers'][0], 0) + rep['allsat_queries']
        out.setdefault('solver_time', {})
        out['solver_time'][job['solvers'][0]] = round(out['solver_time'].get(job['solvers'][0], 0) + rep.get('allsat_s', 0), 3)
        bad = bool(rep['inconclusive']) or not rep['coverage_complete'] or rep.get('solver_errors')
        for ri, o in enumerate(zone_obs):
            rec = {'index': ex.obligations.index(o), 'kind': o['kind'], 'label': o['label'], 'pos': o['pos'], 'fn': o['fn'], 'time': rep['wall_s'],
                   'cubes': rep['cubes']}
            f = rep['failures'].get(ri) if isinstance(rep['failures'], dict) else None
            if f:
                rec['status'] = 'sat'
                rec['model'] = f[0]['model']
                rec['tables'] = table_values(ex, o['viol'], f[0]['model'])
                rec['n_failing_cubes'] = rep.get('n_failing_cubes')
            elif bad:
                rec['status'] = 'unknown'
                rec['errors'] = rep['inconclusive'][:5]
            else:
                rec['status'] = 'unsat'
                rec['reachable'] = 'sat' if rep['cubes'] > 0 else 'unsat'
            rec['by_solver'] = {job['solvers'][0] + '+fold': rec['status']}
            out['results'].append(rec)
    out['terms'] = TM.nterms()
    return out


def table_values(ex, root, model):
    """the oracle table entries needed to replay a model natively"""
    env = {}
    for k, v in model.items():
        env[k] = v[1] if isinstance(v, (tuple, list)) else (bool(v) if isinstance(v, bool) else v)
    need = {}

    def tab(name, key):
        v = cvss_spec.lookup(name, key)
        need.setdefault(name, {})[str(key)] = v
        return v
    # default 0 for inputs the model leaves unconstrained
    for t in TM.topo([root]):
        if t.op == 'var' and t.val not in env:
            env[t.val] = False if t.sort == 'B' else 0
    try:
        TM.evaluate([root], env, tab)
    except KeyError:
        pass
    return need
