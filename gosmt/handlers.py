"""special job handlers for check.py (run in the main process)"""
import os
import sys
import time

import terms as TM
from terms import *  # noqa
import engine
import tabulate
from symexec import Unsupported

sys.path.insert(0, os.path.join(engine.VERIF, 'spec'))
import cvss_spec  # noqa


def has_zone(t, memo):
    r = memo.get(t.id)
    if r is None:
        r = t.sort == 'F' or t.op in tabulate.ZONE_OPS or any(has_zone(a, memo) for a in t.args)
        memo[t.id] = r
    return r


def fp_tabulate(prog, job, out, log=print):
    """harness with floating-point assertions: plain obligations go to the SMT
    solver, FP assertions are decided by frontier cubes (tabulate.py)"""
    ex = engine.Executor(prog, None, job.get('unwind', 400))
    ex.stage_re = job.get('stage_re', r'(?i)round|Score$')
    ex.istage_re = job.get('istage_re', r'(?i)^macrovector$')
    ex.run_inits()
    t0 = time.time()
    ex.call_function(job['func'], [], TRUE, None)
    out['exec_s'] = round(time.time() - t0, 3)
    out['stats'] = dict(ex.stats)
    out['funcs'] = dict(ex.funcs_encoded)
    out['inputs'] = ex.inputs
    memo = {}
    for a in ex.assumptions:
        if has_zone(a, memo):
            raise Unsupported('floating-point assumption')
    zone_obs = [o for o in ex.obligations if has_zone(o['viol'], memo)]
    plain = [i for i, o in enumerate(ex.obligations) if not has_zone(o['viol'], memo)]
    out['results'] = []
    if plain:
        r = engine.discharge(ex, job['solvers'][0], job['timeout'], only=set(plain), workers=job.get('workers', 16))
        out['vacuity'] = {job['solvers'][0]: r['vacuity']}
        out['solver_time'] = {job['solvers'][0]: round(r['solver_time'], 3)}
        out['queries'] = {job['solvers'][0]: r['queries']}
        out['nodes'] = r['nodes']
        for rr in r['results']:
            rec = {k: rr.get(k) for k in ('index', 'kind', 'label', 'pos', 'fn', 'status', 'model', 'reachable', 'errors')}
            rec['time'] = round(rr['time'], 3)
            rec['by_solver'] = {job['solvers'][0]: rr['status']}
            out['results'].append(rec)
    extras = getattr(ex, 'extras', [])
    if zone_obs or extras:
        roots = [o['viol'] for o in zone_obs]
        records = []
        for e in extras:
            for d in e['digits']:
                if d.op != 'const' and d not in records:
                    records.append(d)
        rep = tabulate.tabulate(ex.assumptions, roots, cvss_spec.lookup, log, use_z3=job.get('use_z3', True), workers=job.get('workers', 16),
                                solver=job['solvers'][0], limit=job.get('cube_limit', tabulate.LIMIT), extras=[e['val'] for e in extras], records=records,
                                special=(lambda rep, enum: relation_check(rep, enum, extras, len(roots), log)) if extras else None)
        rep.pop('level_records', None)
        out['tabulation'] = {k: v for k, v in rep.items() if k not in ('failures', 'relations')}
        out.setdefault('queries', {})
        out['queries'][job['solvers'][0]] = out['queries'].get(job['solvers'][0], 0) + rep['allsat_queries']
        out.setdefault('solver_time', {})
        out['solver_time'][job['solvers'][0]] = round(out['solver_time'].get(job['solvers'][0], 0) + rep.get('allsat_s', 0), 3)
        bad = bool(rep['inconclusive']) or not rep['coverage_complete'] or rep.get('solver_errors')
        for ri, o in enumerate(zone_obs):
            rec = {'index': ex.obligations.index(o), 'kind': o['kind'], 'label': o['label'], 'pos': o['pos'], 'fn': o['fn'], 'time': rep['wall_s'],
                   'cubes': rep['cubes']}
            f = rep['failures'].get(ri) if isinstance(rep['failures'], dict) else None
            if f:
                rec['status'] = 'sat'
                rec['model'] = f[0]['model']
                rec['tables'] = table_values(ex, roots + [e['val'] for e in extras], f[0]['model'])
                rec['n_failing_cubes'] = rep.get('n_failing_cubes')
            elif bad:
                rec['status'] = 'unknown'
                rec['errors'] = rep['inconclusive'][:5]
            else:
                rec['status'] = 'unsat'
                rec['reachable'] = 'sat' if rep['cubes'] > 0 else 'unsat'
            rec['by_solver'] = {job['solvers'][0] + '+fold': rec['status']}
            out['results'].append(rec)
        for k, rel in enumerate(rep.get('relations', []) if extras else []):
            rec = {'index': len(ex.obligations) + k, 'kind': 'relation:' + rel['kind'], 'label': rel['name'], 'pos': '', 'fn': job['func'], 'time': rep['wall_s'],
                   'cubes': rep['cubes'], 'classes': rel.get('classes'), 'status': rel['status'], 'why': rel.get('why'), 'values': rel.get('values')}
            if bad and rec['status'] == 'unsat':
                rec['status'] = 'unknown'
                rec['errors'] = rep['inconclusive'][:5]
            if rel.get('models') and rel['status'] == 'sat':
                rec['pair'] = rel['models']
                rec['relation'] = rel['kind']
                tabs = {}
                for m in rel['models']:
                    for r_ in [roots + [e['val'] for e in extras]]:
                        for nm, kv in table_values(ex, r_, m).items():
                            tabs.setdefault(nm, {}).update(kv)
                rec['tables'] = tabs
            if rec['status'] == 'unsat':
                rec['reachable'] = 'sat'
            rec['by_solver'] = {job['solvers'][0] + '+fold': rec['status']}
            out['results'].append(rec)
        if extras and not rep.get('relations') and not rep['inconclusive']:
            rep['inconclusive'].append('relations not evaluated')
    out['terms'] = TM.nterms()
    return out


def table_values(ex, root, model):
    """the oracle table entries needed to replay a model natively"""
    env = {}
    for k, v in model.items():
        env[k] = v[1] if isinstance(v, (tuple, list)) else (bool(v) if isinstance(v, bool) else v)
    need = {}

    def tab(name, key):
        v = cvss_spec.lookup(name, key)
        need.setdefault(name, {})[str(key)] = v
        return v
    # default 0 for inputs the model leaves unconstrained
    roots = root if isinstance(root, list) else [root]
    for t in TM.topo(roots):
        if t.op == 'var' and t.val not in env:
            env[t.val] = False if t.sort == 'B' else 0
    for r in roots:
        try:
            TM.evaluate([r], env, tab)
        except KeyError:
            pass
    return need


def _f(bits):
    import struct
    return struct.unpack('<d', struct.pack('<Q', bits))[0]


def relation_check(rep, enum, extras, nroots, log):
    """Functional / Monotone relations over the solver-enumerated cube tables.
    value(class) = V[wkey(level-1 cube)][level-2 digits]; at most two levels."""
    recs = rep.get('level_records', [])
    out = []
    rep['relations'] = out
    if not recs:
        return
    if len(recs) > 2:
        for e in extras:
            out.append({'name': e['name'], 'kind': e['kind'], 'status': 'unknown', 'why': 'more than two staging levels'})
        return
    final = recs[-1]
    first = recs[0] if len(recs) == 2 else None
    pos = {}
    for li, lr in enumerate(recs):
        for p, tid in enumerate(lr['rec_terms']):
            pos[tid] = (li, p)
    if first is not None:
        wkeys = {}
        keep = first['keep'] or []
        # W key of a level-1 cube: (kept carried values) + main outputs; level 1 has no carried values
        for ci, widx, mainv, recv in first['rows']:
            wkeys[ci] = tuple(mainv)
        windex = {k: i for i, k in enumerate(final['wtuples_in'])}
    for j, e in enumerate(extras):
        res = {'name': e['name'], 'kind': e['kind'], 'status': 'unsat', 'classes': 0}
        out.append(res)
        d1 = []  # (digit position in the tuple, level, rec position) or constant
        for k, dt in enumerate(e['digits']):
            if dt.op == 'const':
                d1.append(('c', TM.signed(dt.val, dt.sort)))
            elif dt.id in pos:
                d1.append(pos[dt.id])
            else:
                res['status'] = 'unknown'
                res['why'] = 'digit %d was not recorded' % k
                break
        if res['status'] != 'unsat':
            continue
        fin_li = len(recs) - 1

        def digs(li, recv):
            o = []
            for p in d1:
                if p[0] == 'c':
                    o.append(p[1])
                elif p[0] == li:
                    o.append(TM.signed(recv[p[1]], 64))
                else:
                    o.append(None)
            return tuple(o)
        # final table: V[widx][digits at final level] -> (value, cube)
        V = {}
        bad = None
        for ci, widx, mainv, recv in final['rows']:
            d = digs(fin_li, recv)
            val = mainv[nroots + j]
            row = V.setdefault(widx, {})
            if d in row and row[d][0] != val:
                bad = ('same class, two values', [(fin_li, row[d][1]), (fin_li, ci)], (row[d][0], val))
            row.setdefault(d, (val, ci))
        steps = []   # pairs of (level, cube A, cube B) to compare: B is one severity step above A (monotone) / same digits (functional)
        radix = [0] * len(d1)
        if first is None:
            classes = V.get(0, {})
            res['classes'] = len(classes)
            if e['kind'] == 'monotone' and not bad:
                for d in classes:
                    for k, x in enumerate(d):
                        radix[k] = max(radix[k], x + 1)
                for d, (val, ci) in classes.items():
                    for k in range(len(d)):
                        if d1[k][0] == 'c':
                            continue
                        up = d[:k] + (d[k] + 1,) + d[k + 1:]
                        if up in classes:
                            if not (_f(classes[up][0]) >= _f(val)):
                                bad = ('score decreases when digit %d goes %d -> %d' % (k, d[k], d[k] + 1), [(0, ci), (0, classes[up][1])], (val, classes[up][0]))
                                break
                        elif d[k] + 1 < radix[k]:
                            res.setdefault('gaps', 0)
                            res['gaps'] += 1
                    if bad:
                        break
        else:
            # level-1 classes: digits -> set of W indices
            L1 = {}
            for ci, widx, mainv, recv in first['rows']:
                d = digs(0, recv)
                w = windex.get(wkeys[ci])
                L1.setdefault(d, {}).setdefault(w, ci)
            res['classes'] = len(L1) * max(len(r) for r in V.values())
            rowsig = {}
            for w, row in V.items():
                rowsig[w] = tuple(sorted((d, v[0]) for d, v in row.items()))
            if not bad:
                for d, ws in L1.items():
                    sigs = set(rowsig.get(w) for w in ws)
                    if len(sigs) > 1:
                        wl = list(ws.items())
                        bad = ('same effective class, different staged value', [(0, wl[0][1]), (0, wl[1][1])], None)
                        break
            if e['kind'] == 'monotone' and not bad:
                checked = set()
                for d, ws in L1.items():
                    for k in range(len(d)):
                        if d[k] is None or d1[k][0] == 'c':
                            continue
                        up = d[:k] + (d[k] + 1,) + d[k + 1:]
                        if up not in L1:
                            continue
                        for wa, cia in ws.items():
                            for wb, cib in L1[up].items():
                                if (wa, wb) in checked:
                                    continue
                                checked.add((wa, wb))
                                ra, rb = V.get(wa, {}), V.get(wb, {})
                                for d2, (va, c2) in ra.items():
                                    if d2 in rb and not (_f(rb[d2][0]) >= _f(va)):
                                        bad = ('score decreases when digit %d goes %d -> %d' % (k, d[k], d[k] + 1), [(0, cia), (0, cib), (1, c2)], (va, rb[d2][0]))
                                        break
                                if bad:
                                    break
                            if bad:
                                break
                        if bad:
                            break
                    if bad:
                        break
                if not bad:
                    for w, row in V.items():
                        for d2, (val, ci) in row.items():
                            for k in range(len(d2)):
                                if d2[k] is None or d1[k][0] == 'c':
                                    continue
                                up = d2[:k] + (d2[k] + 1,) + d2[k + 1:]
                                if up in row and not (_f(row[up][0]) >= _f(val)):
                                    bad = ('score decreases when digit %d goes %d -> %d' % (k, d2[k], d2[k] + 1), [(1, ci), (1, row[up][1])], (val, row[up][0]))
                                    break
                            if bad:
                                break
                        if bad:
                            break
        if bad:
            res['status'] = 'sat'
            res['why'] = bad[0]
            res['values'] = [(_f(v) if v is not None else None) for v in (bad[2] or ())]
            # concrete objects for the two classes
            models = []
            cubes = bad[1]
            if first is not None and len(cubes) == 3:
                # (level-1 cube A, level-1 cube B, final cube giving the level-2 digits)
                lr2 = recs[1]
                ids2 = set(lr2['fterm_ids'])
                cons2 = [c for c in lr2['cons_of'](cubes[2][1]) if c[0].id in ids2]
                for (li, ci) in cubes[:2]:
                    cons = recs[0]['cons_of'](ci) + cons2
                    st, m = enum.witness(cons)
                    models.append(m if st == 'sat' else None)
            else:
                for (li, ci) in cubes:
                    st, m = enum.witness(recs[li]['cons_of'](ci))
                    models.append(m if st == 'sat' else None)
            if any(m is None for m in models):
                res['status'] = 'unknown'
                res['why'] += ' (no concrete witness pair: cubes unreachable or solver unknown)'
            res['models'] = models
        log('    relation %s(%s): %s over %d classes %s' % (e['kind'], e['name'], res['status'], res['classes'], res.get('why', '')))




_SP = {}


def _spec_worker(rows):
    import cvss4_spec
    return [cvss4_spec.score_levels(tuple(int(x) for x in r)) for r in rows]


def fp_oracle(prog, job, out, log=print):
    """v4.0 Score against the exact specification oracle.

    1. the impl's score table: solver-derived cubes of the integer->float frontier, folded by the solver
       (tabulate, as for the other FP properties);
    2. the joint table (frontier tuple, effective severity levels of the 15 scoring metrics): fine
       bit-field groups enumerated by the solver, exact integer evaluation over their product;
    3. for every distinct joint row: folded score == exact specification score of the levels."""
    import numpy as np
    import struct
    ex = engine.Executor(prog, None, job.get('unwind', 400))
    ex.stage_re = job.get('stage_re', r'(?i)round|Score$')
    ex.istage_re = job.get('istage_re', r'(?i)^macrovector$')
    ex.run_inits()
    t0 = time.time()
    ex.call_function(job['func'], [], TRUE, None)
    out['exec_s'] = round(time.time() - t0, 3)
    out['stats'] = dict(ex.stats)
    out['funcs'] = dict(ex.funcs_encoded)
    out['inputs'] = ex.inputs
    out['results'] = []
    solver = job['solvers'][0]
    workers = job.get('workers', 16)
    memo = {}
    plain = [i for i, o in enumerate(ex.obligations) if not has_zone(o['viol'], memo)]
    if plain:
        r = engine.discharge(ex, solver, job['timeout'], only=set(plain), workers=workers)
        out['vacuity'] = {solver: r['vacuity']}
        out['solver_time'] = {solver: round(r['solver_time'], 3)}
        out['queries'] = {solver: r['queries']}
        out['nodes'] = r['nodes']
        for rr in r['results']:
            rec = {k: rr.get(k) for k in ('index', 'kind', 'label', 'pos', 'fn', 'status', 'model', 'reachable', 'errors')}
            rec['time'] = round(rr['time'], 3)
            rec['by_solver'] = {solver: rr['status']}
            out['results'].append(rec)
    extras = [e for e in getattr(ex, 'extras', []) if e['kind'] in ('oracle', 'monotone')]
    if len(extras) != 1:
        raise Unsupported('fp_oracle needs exactly one verif.Oracle / verif.Monotone call')
    e = extras[0]
    val, digits = e['val'], e['digits']
    order, zone, frontier = tabulate.analyse([val], {})
    F = sorted(frontier.values(), key=lambda t: t.id)
    cap = {}

    def capture(rep, enum):
        cap['recs'] = rep.get('level_records')
    rep = tabulate.tabulate(ex.assumptions, [], cvss_spec.lookup, log, use_z3=job.get('use_z3', True), workers=workers, solver=solver,
                            extras=[val], records=F, special=capture)
    recs = cap.get('recs') or []
    status = 'unsat'
    notes = list(rep['inconclusive'])
    res = {'index': len(ex.obligations), 'kind': 'relation:oracle', 'label': e['name'], 'pos': '', 'fn': job['func'], 'cubes': rep['cubes']}
    if notes or not rep['coverage_complete'] or len(recs) != 1:
        res['status'] = 'unknown'
        res['errors'] = notes[:5] or ['unexpected staging of the score']
        res['by_solver'] = {solver + '+fold': 'unknown'}
        out['results'].append(res)
        out['tabulation'] = {k: v for k, v in rep.items() if k not in ('failures', 'relations', 'level_records')}
        return out
    lr = recs[0]
    pos = {tid: p for p, tid in enumerate(lr['rec_terms'])}
    fidx = [pos[t.id] for t in F]
    T_impl = {}
    for ci, widx, mainv, recv in lr['rows']:
        T_impl[tuple(recv[p] for p in fidx)] = mainv[0]
    log('    impl score table: %d frontier tuples' % len(T_impl))
    # joint rows
    mat, domains, complete, info = tabulate.derive_keys(F + digits, ex.assumptions, workers, log, memo={}, solver=solver)
    if mat is None or not complete:
        res['status'] = 'unknown'
        res['errors'] = [str(info)]
        res['by_solver'] = {solver + '+fold': 'unknown'}
        out['results'].append(res)
        return out
    nf = len(F)
    # impl score per row: rows are grouped by their frontier columns through a packed key (1-D unique)
    fkey = np.zeros(len(mat), dtype=np.int64)
    for j in range(nf):
        fkey = fkey * len(domains[j]) + mat[:, j]
    ukeys, first_idx, inv_f = np.unique(fkey, return_index=True, return_inverse=True)
    uf = np.stack([domains[j][mat[first_idx, j]] for j in range(nf)], axis=1)
    sc_impl = np.empty(len(uf), dtype=np.int64)
    bad_impl = []
    for k, row in enumerate(uf):
        key = tuple(bool(x) if t.sort == 'B' else int(x) for x, t in zip(row, F))
        b = T_impl.get(key)
        if b is None:
            sc_impl[k] = -999
            bad_impl.append(key)
            continue
        x = struct.unpack('<d', struct.pack('<Q', b))[0]
        k10 = round(x * 10) if x == x and abs(x) < 1e6 else -998
        sc_impl[k] = k10 if (k10 / 10.0 == x) else -997
    lev = np.stack([domains[nf + j][mat[:, nf + j]].astype(np.int64) for j in range(len(digits))], axis=1)
    if e['kind'] == 'monotone':
        return oracle_monotone(ex, e, F, digits, mat, domains, lev, sc_impl, inv_f, bad_impl, res, out, rep, info, solver, log)
    # spec score per row (the exact table is indexed by the class directly)
    t1 = time.time()
    want = spec_scores_v4(lev, workers, log)
    lkey = np.zeros(len(lev), dtype=np.int64)
    for j, r in enumerate(V4_RADIX):
        lkey = lkey * r + np.clip(lev[:, j], 0, r - 1)
    ul = np.unique(lkey)
    log('    specification scores for %d rows / %d effective classes in %.1fs' % (len(lev), len(ul), time.time() - t1))
    got = sc_impl[inv_f.reshape(-1)]
    mism = np.nonzero(got != want)[0]
    res['classes'] = int(len(ul))
    res['rows'] = int(len(mat))
    res['frontier_tuples'] = int(len(uf))
    out['tabulation'] = {k: v for k, v in rep.items() if k not in ('failures', 'relations', 'level_records')}
    out['tabulation']['oracle'] = {'joint': info, 'effective_classes': int(len(ul)), 'rows': int(len(mat)), 'mismatching_rows': int(len(mism))}
    if len(mism) == 0:
        res['status'] = 'unsat'
        res['reachable'] = 'sat'
    else:
        # group mismatches by (got, want, no-impact pattern) for reporting; confirm a few with the solver
        enum = tabulate.Enumerator(ex.assumptions, F + digits, solver, 600)
        models = []
        sigs = {}
        for i in mism:
            sig = (int(got[i]), int(want[i]))
            sigs[sig] = sigs.get(sig, 0) + 1
        try:
            tried = 0
            seen_sig = set()
            for i in mism:
                sig = (int(got[i]), int(want[i]))
                if sig in seen_sig and len(models) >= 1:
                    continue
                seen_sig.add(sig)
                tried += 1
                if tried > 6:
                    break
                cons = []
                for j, t in enumerate(F + digits):
                    v = int(domains[j][mat[i, j]])
                    cons.append((t, bool(v) if t.sort == 'B' else v))
                st, m = enum.witness(cons)
                if st == 'sat':
                    models.append({'model': m, 'got10': int(got[i]), 'want10': int(want[i]), 'levels': [int(x) for x in lev[i]]})
                    if len(models) >= 3:
                        break
        finally:
            enum.close()
        res['mismatch_signatures'] = sorted(([k[0], k[1], v] for k, v in sigs.items()), key=lambda x: -x[2])[:20]
        res['n_mismatching_rows'] = int(len(mism))
        log('    %d mismatching rows; (impl x10, spec x10, rows): %s' % (len(mism), res['mismatch_signatures'][:12]))
        if models:
            res['status'] = 'sat'
            res['model'] = models[0]['model']
            res['oracle'] = {'name': e['name'], 'want10': models[0]['want10'], 'got10': models[0]['got10'], 'levels': models[0]['levels']}
            res['all_models'] = models
        else:
            res['status'] = 'unknown'
            res['errors'] = ['mismatching rows without a concrete witness (unreachable combinations of the over-approximated cube product?)']
    res['by_solver'] = {solver + '+fold': res['status']}
    out['results'].append(res)
    out.setdefault('queries', {})
    out['queries'][solver] = out['queries'].get(solver, 0) + rep['allsat_queries'] + info.get('allsat_queries', 0)
    out['terms'] = TM.nterms()
    return out


def groups_decide(prog, job, out, log=print):
    """harness whose obligations include arithmetic over many independent bit fields (the buffer
    length of Vector() against the capacity computed by lenVec): such obligations are hard for
    bit-blasting, so they are decided by the group machinery: the solver enumerates the tuples of
    the small bit-field terms below the obligation (per group, with coverage), the obligation is
    evaluated exactly over their product; the remaining obligations go to the SMT solver as usual"""
    import numpy as np
    ex = engine.run_harness(prog, job['func'], max_unwind=job.get('unwind', 400), params=job.get('params'))
    out['exec_s'] = round(ex.exec_time, 3)
    out['stats'] = dict(ex.stats)
    out['funcs'] = dict(ex.funcs_encoded)
    out['inputs'] = ex.inputs
    out['params'] = getattr(ex, 'params_used', {})
    solver = job['solvers'][0]
    workers = job.get('workers', 16)
    kinds = set(job.get('group_kinds', ['growth']))
    ignore = set(job.get('ignore_kinds', []))
    hard = [i for i, o in enumerate(ex.obligations) if o['kind'] in kinds and o['kind'] not in ignore]
    plain = [i for i, o in enumerate(ex.obligations) if o['kind'] not in kinds and o['kind'] not in ignore]
    out['results'] = []
    if plain:
        r = engine.discharge(ex, solver, job['timeout'], only=set(plain), workers=workers)
        out['vacuity'] = {solver: r['vacuity']}
        out['solver_time'] = {solver: round(r['solver_time'], 3)}
        out['queries'] = {solver: r['queries']}
        out['nodes'] = r['nodes']
        for rr in r['results']:
            rec = {k: rr.get(k) for k in ('index', 'kind', 'label', 'pos', 'fn', 'status', 'model', 'reachable', 'errors')}
            rec['time'] = round(rr['time'], 3)
            rec['by_solver'] = {solver: rr['status']}
            out['results'].append(rec)
    cubes = 0
    q = 0
    # the obligations of one call are nested (the buffer only grows): decide the distinct ones, last first
    seen = {}
    pending_implied = []
    last = hard[-1] if hard else None
    for i in hard:
        o = ex.obligations[i]
        t0 = time.time()
        if o['viol'].id in seen:
            st = seen[o['viol'].id]
        elif i != last and o['kind'] == 'growth' and job.get('growth_last_only', True):
            # the buffer only grows: an intermediate length exceeding the capacity implies the final one does
            st = None
        else:
            mat, domains, complete, info = tabulate.derive_keys([o['viol']], ex.assumptions, workers, lambda *a: None, maxbits=job.get('maxbits', 8), memo={}, solver=solver)
            if mat is None or not complete:
                st = ('unknown', str(info))
            else:
                cubes += info['fine_cubes']
                q += info['allsat_queries']
                vals = set(int(domains[0][k]) for k in mat[:, 0])
                if vals <= {0}:
                    st = ('unsat', None)
                else:
                    # a cube of the product violates it: ask the solver for a concrete input
                    s2, m = engine_witness(ex, o['viol'], solver)
                    st = ('sat', m) if s2 == 'sat' else (('unsat', None) if s2 == 'unsat' else ('unknown', 'witness query: ' + s2))
            seen[o['viol'].id] = st
        if st is None:
            pending_implied.append(i)
            continue
        rec = {'index': i, 'kind': o['kind'], 'label': o['label'], 'pos': o['pos'], 'fn': o['fn'], 'status': st[0], 'time': round(time.time() - t0, 3),
               'by_solver': {solver + '+groups': st[0]}}
        if i == last:
            for j in pending_implied:
                oj = ex.obligations[j]
                out['results'].append({'index': j, 'kind': oj['kind'], 'label': oj['label'] + ' [implied by the final length check: the buffer only grows]', 'pos': oj['pos'], 'fn': oj['fn'],
                                       'status': st[0] if st[0] != 'sat' else 'unknown', 'time': 0.0, 'by_solver': {solver + '+groups': 'implied'}})
        if st[0] == 'sat':
            rec['model'] = st[1]
        if st[0] == 'unknown':
            rec['errors'] = [st[1]]
        out['results'].append(rec)
    out.setdefault('queries', {})
    out['queries'][solver] = out['queries'].get(solver, 0) + q
    out['tabulation'] = {'cubes': cubes, 'note': 'arithmetic obligations decided over the product of solver-enumerated bit-field groups'}
    out['terms'] = TM.nterms()
    return out


def engine_witness(ex, viol, solver):
    import solve
    text, vars_ = TM.smt_defs(list(ex.assumptions) + [viol])
    s = solve.Solver(solver, 300)
    try:
        s.send(text)
        for a in ex.assumptions:
            s.send('(assert %s)' % TM.name(a))
        s.sync(extra=120)
        st, m = s.check(TM.name(viol), want_model=True, vars_=sorted(vars_))
        return st, m
    finally:
        s.close()


V4_RADIX = [4, 3, 3, 2, 2, 3, 3, 3, 3, 4, 4, 3, 3, 3, 3]   # levels in cvss4_spec.ORACLE_ORDER


def spec_scores_v4(levels, workers, log):
    """exact specification score x 10 per row of effective levels; the full table (15,116,544
    classes) is computed once per oracle data version and cached under /verif/spec/cache"""
    import numpy as np
    import cvss4_spec
    import multiprocessing
    cdir = os.path.join(engine.VERIF, 'spec', 'cache')
    path = os.path.join(cdir, 'v4_scores_%s.npy' % cvss4_spec.DATA['sha256'][:16])
    n = 1
    for r in V4_RADIX:
        n *= r
    idx = np.zeros(len(levels), dtype=np.int64)
    ok = np.ones(len(levels), dtype=bool)
    for j, r in enumerate(V4_RADIX):
        col = levels[:, j]
        ok &= (col >= 0) & (col < r)
        idx = idx * r + np.clip(col, 0, r - 1)
    if os.path.exists(path):
        tab = np.load(path)
    else:
        allrows = np.empty((n, len(V4_RADIX)), dtype=np.int64)
        rest = np.arange(n, dtype=np.int64)
        for j in range(len(V4_RADIX) - 1, -1, -1):
            allrows[:, j] = rest % V4_RADIX[j]
            rest //= V4_RADIX[j]
        chunks = [allrows[i:i + 50000] for i in range(0, n, 50000)]
        with multiprocessing.Pool(workers) as pool:
            parts = pool.map(_spec_worker, chunks)
        tab = np.array([x for p in parts for x in p], dtype=np.int16)
        os.makedirs(cdir, exist_ok=True)
        np.save(path, tab)
        log('    (exact specification table of %d classes computed and cached)' % n)
    out = tab[idx].astype(np.int64)
    out[~ok] = -555
    return out


def oracle_monotone(ex, e, F, digits, mat, domains, lev, sc_impl, inv_f, bad_impl, res, out, rep, info, solver, log):
    """one severity step up (digit + 1, others fixed) never lowers the folded score, over the complete
    table of classes (digits are severity ranks, 0 = least severe)"""
    import numpy as np
    got = sc_impl[inv_f.reshape(-1)]
    radix = [int(lev[:, j].max()) + 1 for j in range(lev.shape[1])]
    n = 1
    for r in radix:
        n *= r
    idx = np.zeros(len(lev), dtype=np.int64)
    for j, r in enumerate(radix):
        idx = idx * r + lev[:, j]
    S = np.full(n, -1, dtype=np.int64)
    first = np.full(n, -1, dtype=np.int64)
    order = np.argsort(idx, kind='stable')
    S[idx[order]] = got[order]
    first[idx[order]] = order
    # the score must be a function of the class (C10) for the relation to be meaningful
    dup = np.nonzero(S[idx] != got)[0]
    res['classes'] = int((S >= 0).sum())
    res['rows'] = int(len(mat))
    out['tabulation'] = {k: v for k, v in rep.items() if k not in ('failures', 'relations', 'level_records')}
    out['tabulation']['oracle'] = {'joint': info, 'classes': res['classes'], 'rows': int(len(mat))}
    viol = None
    if len(dup):
        viol = ('same class, two scores', int(first[idx[dup[0]]]), int(dup[0]))
    else:
        cube = S.reshape(radix)
        fcube = first.reshape(radix)
        for j in range(len(radix)):
            lo = np.take(cube, range(0, radix[j] - 1), axis=j)
            hi = np.take(cube, range(1, radix[j]), axis=j)
            bad = (lo >= 0) & (hi >= 0) & (hi < lo)
            if bad.any():
                pos = np.argwhere(bad)[0]
                a = fcube[tuple(pos)]
                pos2 = pos.copy()
                pos2[j] += 1
                b = fcube[tuple(pos2)]
                viol = ('score decreases when digit %d goes %d -> %d' % (j, pos[j], pos[j] + 1), int(a), int(b))
                res['n_violating_pairs'] = int(bad.sum())
                break
    if viol is None:
        res['status'] = 'unsat'
        res['reachable'] = 'sat'
    else:
        enum = tabulate.Enumerator(ex.assumptions, F + digits, solver, 600)
        models = []
        try:
            for i in viol[1:]:
                cons = []
                for j, t in enumerate(F + digits):
                    v = int(domains[j][mat[i, j]])
                    cons.append((t, bool(v) if t.sort == 'B' else v))
                st, m = enum.witness(cons)
                models.append(m if st == 'sat' else None)
        finally:
            enum.close()
        res['why'] = viol[0]
        log('    relation monotone(%s): %s' % (e['name'], viol[0]))
        if all(m is not None for m in models):
            res['status'] = 'sat'
            res['pair'] = models
            res['relation'] = 'monotone'
        else:
            res['status'] = 'unknown'
            res['errors'] = ['violating pair without concrete witnesses']
    res['by_solver'] = {solver + '+fold': res['status']}
    res['kind'] = 'relation:monotone'
    out['results'].append(res)
    out['terms'] = TM.nterms()
    return out


def plain(prog, job, out, log=print):
    """ordinary harness, obligations discharged by several solver processes in parallel"""
    ex = engine.run_harness(prog, job['func'], max_unwind=job.get('unwind', 400), params=job.get('params'))
    out['exec_s'] = round(ex.exec_time, 3)
    out['stats'] = dict(ex.stats)
    out['funcs'] = dict(ex.funcs_encoded)
    out['inputs'] = ex.inputs
    out['params'] = getattr(ex, 'params_used', {})
    out['terms'] = TM.nterms()
    out['n_assumptions'] = len(ex.assumptions)
    per = {}
    for kind in job['solvers']:
        per[kind] = engine.discharge(ex, kind, job['timeout'] if kind != 'cvc5' else min(job['timeout'], job.get('cvc5_timeout', 120)), workers=job.get('workers', 16))
    first = per[job['solvers'][0]]
    out['nodes'] = first['nodes']
    out['vacuity'] = {k: v['vacuity'] for k, v in per.items()}
    out['solver_time'] = {k: round(v['solver_time'], 3) for k, v in per.items()}
    out['queries'] = {k: v['queries'] for k, v in per.items()}
    out['results'] = []
    for i, r in enumerate(first['results']):
        rec = {k: r.get(k) for k in ('index', 'kind', 'label', 'pos', 'fn', 'status', 'model', 'reachable', 'errors')}
        rec['time'] = round(r['time'], 3)
        rec['by_solver'] = {k: v['results'][i]['status'] for k, v in per.items()}
        sts = set(rec['by_solver'].values())
        if 'sat' in sts and 'unsat' in sts:
            rec['status'] = 'disagree'
        elif 'sat' in sts:
            rec['status'] = 'sat'
            for k, v in per.items():
                if v['results'][i]['status'] == 'sat' and v['results'][i]['model']:
                    rec['model'] = v['results'][i]['model']
                    break
        elif 'unsat' in sts:
            rec['status'] = 'unsat'
        else:
            rec['status'] = 'unknown'
        out['results'].append(rec)
    return out
