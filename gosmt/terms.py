"""Hash-consed term DAG with local rewriting, SMT-LIB2 printing and concrete
evaluation.  Sorts: 'B' (Bool), int n (BitVec n), 'F' (Float64, RNE).

Every constructor folds constants, so a run on concrete inputs is a concrete
run; integers that are merges of constants stay `ite` trees over constants
("small sets") and operations with them are pushed to the leaves.
"""
import math
import struct
import sys

sys.setrecursionlimit(1000000)

MAXCASES = 256
# equalities that a harness assumption rules out syntactically (e.g. "this input byte is not '/'")
KNOWN_FALSE = set()
MAXPRODUCT = 16


class T(object):
    __slots__ = ('op', 'args', 'sort', 'val', 'id', '_cases', '_lits', 'tag', '_neg', '_cm')

    def __repr__(self):
        return pp(self, 4)

    def is_const(self):
        return self.op == 'const'


_table = {}
_next = [0]


def mk(op, args, sort, val=None):
    key = (op, tuple(a.id for a in args), sort, val)
    t = _table.get(key)
    if t is None:
        t = T()
        t.op = op
        t.args = tuple(args)
        t.sort = sort
        t.val = val
        t.id = _next[0]
        _next[0] += 1
        t._cases = None
        t._lits = None
        t.tag = None
        t._neg = None
        t._cm = None
        _table[key] = t
    return t


def nterms():
    return _next[0]


# ---------------------------------------------------------------- constants

def const(sort, v):
    if sort == 'B':
        return TRUE if v else FALSE
    if sort == 'F':
        return mk('const', (), 'F', struct.unpack('<Q', struct.pack('<d', v))[0])
    return mk('const', (), sort, v & ((1 << sort) - 1))


def fconst_bits(bits):
    return mk('const', (), 'F', bits)


TRUE = mk('const', (), 'B', True)
FALSE = mk('const', (), 'B', False)


def bv(v, w=64):
    return const(w, v)


def fval(t):
    return struct.unpack('<d', struct.pack('<Q', t.val))[0]


def var(name, sort):
    return mk('var', (), sort, name)


def signed(v, w):
    return v - (1 << w) if v >> (w - 1) else v


# ---------------------------------------------------------------- bool

def Not(a):
    """negation normal form: 'not' only above atoms"""
    if a.op == 'const':
        return FALSE if a.val else TRUE
    if a.op == 'not':
        return a.args[0]
    r = a._neg
    if r is None:
        if a.op == 'and':
            r = Or(*[Not(x) for x in a.args])
        elif a.op == 'or':
            r = And(*[Not(x) for x in a.args])
        elif a.op == 'ite':
            r = Ite(a.args[0], Not(a.args[1]), Not(a.args[2]))
        else:
            r = mk('not', (a,), 'B')
        a._neg = r
        if r._neg is None:
            r._neg = a
    return r


def _lits(t):
    """conjunct set of an 'and' term (or the term itself)"""
    if t.op == 'and':
        return t._lits
    return frozenset((t,))


def _eqconst(l):
    """if literal is (x == const) return (x, const value)"""
    if l.op == 'eq' and l.args[1].op == 'const' and l.args[0].op != 'const':
        return l.args[0], l.args[1].val
    return None


def _mkand(litset):
    """hash-consed conjunction of a frozenset of literals (consistent, >= 2).
    tag = (tuple of disjunction conjuncts, {term: const} of the equality conjuncts)"""
    key = ('and', litset)
    t = _table.get(key)
    if t is None:
        t = T()
        t.op = 'and'
        t.args = tuple(litset)
        t.sort = 'B'
        t.val = None
        t.id = _next[0]
        _next[0] += 1
        t._cases = None
        t._lits = litset
        ors = []
        eqs = {}
        for l in litset:
            if l.op == 'or':
                ors.append(l)
            elif l.op == 'eq' and l.args[1].op == 'const' and l.args[0].op != 'const':
                eqs[l.args[0]] = l.args[1].val
        t.tag = (tuple(ors), eqs)
        t._neg = None
        t._cm = None
        _table[key] = t
    return t


def _isneg(l, s):
    """is the complement of literal l in set s"""
    if l.op == 'not':
        return l.args[0] in s
    n = l._neg
    return n is not None and n in s


def _dead(d, alls, eqs):
    """disjunct d contradicts the literal set"""
    if d.op == 'and':
        for dl in d._lits:
            if _isneg(dl, alls):
                return True
            if eqs and dl.op == 'eq' and dl.args[1].op == 'const':
                ov = eqs.get(dl.args[0])
                if ov is not None and ov != dl.args[1].val:
                    return True
        return False
    if _isneg(d, alls):
        return True
    if eqs and d.op == 'eq' and d.args[1].op == 'const':
        ov = eqs.get(d.args[0])
        if ov is not None and ov != d.args[1].val:
            return True
    return False


def And(*xs):
    args = []
    for x in xs:
        if x.op == 'const':
            if not x.val:
                return FALSE
            continue
        args.append(x)
    if not args:
        return TRUE
    if len(args) == 1:
        return args[0]
    base = args[0]
    bl = len(base._lits) if base.op == 'and' else 1
    for x in args[1:]:
        n = len(x._lits) if x.op == 'and' else 1
        if n > bl:
            base, bl = x, n
    lits = _lits(base)
    new = set()
    for x in args:
        if x is base:
            continue
        if x.op == 'and':
            for l in x._lits:
                if l not in lits:
                    new.add(l)
        elif x not in lits:
            new.add(x)
    if not new:
        return base
    if base.op == 'and':
        bors, beqs = base.tag
    else:
        bors = (base,) if base.op == 'or' else ()
        e = _eqconst(base)
        beqs = {e[0]: e[1]} if e is not None else {}
    # complementary literals and conflicting equalities among (base, new)
    neweq = None
    newors = None
    for l in new:
        if l.op == 'not':
            a = l.args[0]
            if a in lits or a in new:
                return FALSE
        else:
            n = l._neg
            if n is not None and (n in lits or n in new):
                return FALSE
            if l.op == 'eq':
                if l.args[1].op == 'const' and l.args[0].op != 'const':
                    x, c = l.args[0], l.args[1].val
                    o = beqs.get(x)
                    if o is not None and o != c:
                        return FALSE
                    if neweq is None:
                        neweq = {}
                    o = neweq.get(x)
                    if o is not None and o != c:
                        return FALSE
                    neweq[x] = c
            elif l.op == 'or':
                if newors is None:
                    newors = []
                newors.append(l)
    alls = lits | new
    drop = None
    add = None
    # new disjunctions against everything; old disjunctions (few) against the new literals only
    if newors:
        eqs = beqs
        if neweq:
            eqs = dict(beqs)
            eqs.update(neweq)
        for o in newors:
            if len(o.args) > 48:
                continue
            keep = []
            sat = False
            for d in o.args:
                if d in alls:
                    sat = True
                    break
                if not _dead(d, alls, eqs):
                    keep.append(d)
            if sat:
                drop = (drop or []) + [o]
            elif len(keep) != len(o.args):
                if not keep:
                    return FALSE
                drop = (drop or []) + [o]
                add = (add or []) + [Or(*keep)]
    if bors and len(bors) <= 6 and len(new) <= 6:
        for o in bors:
            if len(o.args) > 48:
                continue
            keep = []
            sat = False
            for d in o.args:
                if d in new:
                    sat = True
                    break
                if not _dead(d, new, neweq):
                    keep.append(d)
            if sat:
                drop = (drop or []) + [o]
            elif len(keep) != len(o.args):
                if not keep:
                    return FALSE
                drop = (drop or []) + [o]
                add = (add or []) + [Or(*keep)]
    if neweq:
        # disequalities implied by a new equality
        for l in alls:
            if l.op == 'not' and l.args[0].op == 'eq':
                a = l.args[0]
                if a.args[1].op == 'const':
                    ov = neweq.get(a.args[0])
                    if ov is not None and ov != a.args[1].val:
                        drop = (drop or []) + [l]
    if drop or add:
        rest = set(alls)
        for d in drop or ():
            rest.discard(d)
        if not rest and not add:
            return TRUE
        if add:
            r0 = _mkand(frozenset(rest)) if len(rest) > 1 else (next(iter(rest)) if rest else TRUE)
            return And(r0, *add)
        if len(rest) == 1:
            return next(iter(rest))
        return _mkand(frozenset(rest))
    return _mkand(alls)


def Or(*xs):
    ds = {}
    for x in xs:
        if x.op == 'const':
            if x.val:
                return TRUE
            continue
        if x.op == 'or':
            for d in x.args:
                ds[d.id] = d
        else:
            ds[x.id] = x
    if not ds:
        return FALSE
    if len(ds) == 1:
        return next(iter(ds.values()))
    for d in ds.values():
        if d.op == 'not' and d.args[0].id in ds:
            return TRUE
    ls = sorted(ds.values(), key=lambda t: t.id)
    # factor a common conjunct set:  (a&b)|(a&c) -> a&(b|c)
    if len(ls) <= 12:
        common = None
        for d in ls:
            s = _lits(d)
            common = s if common is None else (common & s)
            if not common:
                break
        if common:
            rest = []
            for d in ls:
                r = [l for l in _lits(d) if l not in common]
                if not r:
                    return And(*common)
                rest.append(And(*r))
            return And(And(*common), Or(*rest))
    return mk('or', tuple(ls), 'B')


def Named(t):
    """opaque Boolean name for t: And/Or/Not treat it as an atom, the solver
    gets the definition.  Used to cut path conditions at joins so that the
    literal sets handled by And stay small."""
    if t.op in ('const', 'var', 'name') or (t.op == 'not' and t.args[0].op in ('var', 'name')):
        return t
    return mk('name', (t,), 'B')


def gsize(t):
    if t.op == 'and':
        return len(t._lits)
    if t.op == 'or':
        return len(t.args) + 1
    return 1


def Implies(a, b):
    return Or(Not(a), b)


def Ite(c, a, b):
    if c.op == 'const':
        return a if c.val else b
    if a is b:
        return a
    if c.op == 'not':
        return Ite(c.args[0], b, a)
    if a.sort == 'B':
        if a.op == 'const' and b.op == 'const':
            return c if a.val else Not(c)
        if a.op == 'const':
            return Or(c, b) if a.val else And(Not(c), b)
        if b.op == 'const':
            return Or(Not(c), a) if b.val else And(c, a)
    # ite(c, x, ite(c, y, z)) -> ite(c, x, z)
    if b.op == 'ite' and b.args[0] is c:
        return Ite(c, a, b.args[2])
    if a.op == 'ite' and a.args[0] is c:
        return Ite(c, a.args[1], b)
    # ite(c1, x, ite(c2, x, y)) -> ite(c1|c2, x, y)
    if b.op == 'ite' and b.args[1] is a:
        return Ite(Or(c, b.args[0]), a, b.args[2])
    if a.sort == 'F' and (a.op in ('i2f', 'const')) and (b.op in ('i2f', 'const')):
        # integer-valued floats (loop counters such as `i := 0.; i++`, distances) stay integers
        ia, ib = _intview(a), _intview(b)
        if ia is not None and ib is not None:
            return I2F(Ite(c, ia, ib))
    if a.sort == 'F' and a.op == b.op and a.val == b.val and len(a.args) == len(b.args) and a.args and a.op not in ('ite',):
        # anti-unification: ite(c, f(x, y), f(x', y)) = f(ite(c, x, x'), y); merges the branches of
        # code such as `if scopeUnchanged { return roundup(a*e) }; return roundup(b*e)`
        diff = [i for i, (p, q) in enumerate(zip(a.args, b.args)) if p is not q]
        if len(diff) == 1 and a.args[diff[0]].sort == b.args[diff[0]].sort:
            i = diff[0]
            na = list(a.args)
            na[i] = Ite(c, a.args[i], b.args[i])
            return mk(a.op, tuple(na), a.sort, a.val)
    return mk('ite', (c, a, b), a.sort)


def valueset(t):
    """frozenset of the constants an ite DAG over constants can take (at most
    MAXCASES), else None; cheap (no guards), memoised"""
    r = t._cases
    if r is not None:
        return r if r != 0 else None
    if t.op == 'const':
        r = frozenset((t.val,))
    elif t.op == 'istage':
        r = valueset(t.args[0])
    elif t.op == 'ite':
        a = valueset(t.args[1])
        b = valueset(t.args[2]) if a is not None else None
        if a is None or b is None:
            r = None
        else:
            r = a | b
            if len(r) > MAXCASES:
                r = None
    else:
        r = None
    t._cases = r if r is not None else 0
    return r


def casemap(t):
    """{constant value: guard} for an ite DAG over constants (see valueset).
    Memoised per node, so shared sub-DAGs are visited once; guards are
    mutually exclusive."""
    if valueset(t) is None:
        return None
    r = t._cm
    if r is not None:
        return r
    if t.op == 'const':
        r = {t.val: TRUE}
    elif t.op == 'istage':
        r = casemap(t.args[0])
    else:
        a = casemap(t.args[1])
        b = casemap(t.args[2])
        c = t.args[0]
        nc = Not(c)
        r = {}
        for v, g in a.items():
            gg = And(c, g)
            if gg is not FALSE:
                r[v] = gg
        for v, g in b.items():
            gg = And(nc, g)
            if gg is FALSE:
                continue
            if v in r:
                r[v] = Or(r[v], gg)
            else:
                r[v] = gg
    t._cm = r
    return r


def nleaves(t):
    m = valueset(t)
    return len(m) if m is not None else 0


def cases(t):
    """[(guard, python value)] (exclusive guards, equal values fused) if t is
    an ite DAG over at most MAXCASES distinct constants, else None"""
    m = casemap(t)
    if m is None:
        return None
    return [(g, v) for v, g in m.items()]


def from_cases(cs, sort):
    """ite chain from [(guard, value)] with mutually exclusive guards; equal
    values fused; the last value needs no guard"""
    fused = {}
    order = []
    for g, v in cs:
        if g is FALSE:
            continue
        if v in fused:
            fused[v] = Or(fused[v], g)
        else:
            fused[v] = g
            order.append(v)
    mkc = (lambda v: mk('const', (), 'F', v)) if sort == 'F' else (lambda v: const(sort, v))
    if not order:
        return mkc(0)
    res = mkc(order[-1])
    for v in reversed(order[:-1]):
        res = Ite(fused[v], mkc(v), res)
    return res


def _maptree(t, f, memo):
    """rebuild the ite tree t with f applied to its constant leaves"""
    r = memo.get(t.id)
    if r is None:
        if t.op == 'const':
            r = f(t.val)
        elif t.op == 'istage':
            r = _maptree(t.args[0], f, memo)
        else:
            r = Ite(t.args[0], _maptree(t.args[1], f, memo), _maptree(t.args[2], f, memo))
        memo[t.id] = r
    return r


def _lift(f, sort, *ts):
    """apply python function f over the leaves of the ite trees ts (structure
    preserving, no guard growth); None if some t is not such a tree"""
    n = 1
    for t in ts:
        if t.op == 'istage':
            return None
        k = nleaves(t)
        if not k:
            return None
        n *= k
    if n > MAXCASES:
        return None
    if len(ts) == 2 and ts[0].op != 'const' and ts[1].op != 'const' and n > MAXPRODUCT:
        # a product of two trees entangles independent fields; leave it to the solver
        return None
    if sort == 'B':
        mkc = lambda v: TRUE if v else FALSE
    elif sort == 'F':
        mkc = lambda v: const('F', v)
    else:
        mkc = lambda v: const(sort, v)
    if len(ts) == 1:
        return _maptree(ts[0], lambda x: mkc(f(x)), {})
    a, b = ts
    if a.op == 'const':
        av = a.val
        return _maptree(b, lambda y: mkc(f(av, y)), {})
    if b.op == 'const':
        bv_ = b.val
        return _maptree(a, lambda x: mkc(f(x, bv_)), {})
    return _maptree(a, lambda x: _maptree(b, lambda y: mkc(f(x, y)), {}), {})


def Eq(a, b):
    if a is b:
        if a.sort == 'F':
            raise ValueError('use Feq for floats')
        return TRUE
    if a.sort == 'B':
        if a.op == 'const':
            return b if a.val else Not(b)
        if b.op == 'const':
            return a if b.val else Not(a)
        return Or(And(a, b), And(Not(a), Not(b)))
    if a.op == 'const' and b.op == 'const':
        return TRUE if a.val == b.val else FALSE
    if a.op == 'const':
        a, b = b, a
    if b.op == 'const':
        r = _lift(lambda x, y: x == y, 'B', a, b)
        if r is not None:
            return r
        # (x & m) == c with c having bits outside m
        if a.op == 'bvand' and a.args[1].op == 'const' and (b.val & ~a.args[1].val):
            return FALSE
    else:
        r = _lift(lambda x, y: x == y, 'B', a, b)
        if r is not None:
            return r
        if a.id > b.id:
            a, b = b, a
    r = mk('eq', (a, b), 'B')
    if r.id in KNOWN_FALSE:
        return FALSE
    return r


# ---------------------------------------------------------------- bit-vectors

def _mask(w):
    return (1 << w) - 1


_BVFOLD = {
    'bvadd': lambda x, y, w: (x + y) & _mask(w),
    'bvsub': lambda x, y, w: (x - y) & _mask(w),
    'bvmul': lambda x, y, w: (x * y) & _mask(w),
    'bvand': lambda x, y, w: x & y,
    'bvor': lambda x, y, w: x | y,
    'bvxor': lambda x, y, w: x ^ y,
    'bvshl': lambda x, y, w: (x << y) & _mask(w) if y < w else 0,
    'bvlshr': lambda x, y, w: (x >> y) if y < w else 0,
    'bvashr': lambda x, y, w: (signed(x, w) >> min(y, w - 1)) & _mask(w),
    'bvudiv': lambda x, y, w: (x // y) if y else _mask(w),
    'bvurem': lambda x, y, w: (x % y) if y else x,
    'bvsdiv': lambda x, y, w: _sdiv(x, y, w),
    'bvsrem': lambda x, y, w: _srem(x, y, w),
}


def _sdiv(x, y, w):
    sx, sy = signed(x, w), signed(y, w)
    if sy == 0:
        return _mask(w) if sx >= 0 else 1
    q = abs(sx) // abs(sy)
    if (sx < 0) != (sy < 0):
        q = -q
    return q & _mask(w)


def _srem(x, y, w):
    sx, sy = signed(x, w), signed(y, w)
    if sy == 0:
        return x
    r = abs(sx) % abs(sy)
    if sx < 0:
        r = -r
    return r & _mask(w)


def bvop(op, a, b):
    w = a.sort
    assert a.sort == b.sort and isinstance(w, int), (op, a.sort, b.sort)
    f = _BVFOLD[op]
    if a.op == 'const' and b.op == 'const':
        return const(w, f(a.val, b.val, w))
    # identities
    if b.op == 'const':
        bvv = b.val
        if op in ('bvadd', 'bvsub', 'bvor', 'bvxor', 'bvshl', 'bvlshr', 'bvashr') and bvv == 0:
            return a
        if op == 'bvand':
            if bvv == 0:
                return b
            if bvv == _mask(w):
                return a
            if a.op == 'bvand' and a.args[1].op == 'const':
                return bvop('bvand', a.args[0], const(w, bvv & a.args[1].val))
        if op == 'bvmul':
            if bvv == 0:
                return b
            if bvv == 1:
                return a
        if op in ('bvudiv', 'bvsdiv') and bvv == 1:
            return a
    if a.op == 'const':
        av = a.val
        if op in ('bvadd', 'bvor', 'bvxor') and av == 0:
            return b
        if op in ('bvand', 'bvmul', 'bvshl', 'bvlshr', 'bvudiv', 'bvurem') and av == 0:
            return a
        if op == 'bvand' and av == _mask(w):
            return b
        if op == 'bvmul' and av == 1:
            return b
    if op in ('bvand', 'bvor') and a is b:
        return a
    r = _lift(lambda x, y: f(x, y, w), w, a, b)
    if r is not None:
        return r
    if op in ('bvadd', 'bvmul', 'bvand', 'bvor', 'bvxor') and (a.op == 'const' or (b.op != 'const' and a.id > b.id)):
        a, b = b, a
    return mk(op, (a, b), w)


def bvnot(a):
    if a.op == 'const':
        return const(a.sort, ~a.val)
    r = _lift(lambda x: (~x) & _mask(a.sort), a.sort, a)
    return r if r is not None else mk('bvnot', (a,), a.sort)


def bvneg(a):
    if a.op == 'const':
        return const(a.sort, -a.val)
    r = _lift(lambda x: (-x) & _mask(a.sort), a.sort, a)
    return r if r is not None else mk('bvneg', (a,), a.sort)


_CMP = {
    'ult': lambda x, y, w: x < y,
    'ule': lambda x, y, w: x <= y,
    'slt': lambda x, y, w: signed(x, w) < signed(y, w),
    'sle': lambda x, y, w: signed(x, w) <= signed(y, w),
}


def bvcmp(op, a, b):
    w = a.sort
    assert a.sort == b.sort, (op, a.sort, b.sort)
    f = _CMP[op]
    if a.op == 'const' and b.op == 'const':
        return TRUE if f(a.val, b.val, w) else FALSE
    if a is b:
        return TRUE if op in ('ule', 'sle') else FALSE
    r = _lift(lambda x, y: f(x, y, w), 'B', a, b)
    if r is not None:
        return r
    return mk(op, (a, b), 'B')


def zext(a, w):
    if a.sort == w:
        return a
    if a.op == 'const':
        return const(w, a.val)
    r = _lift(lambda x: x, w, a)
    return r if r is not None else mk('zext', (a,), w)


def sext(a, w):
    if a.sort == w:
        return a
    if a.op == 'const':
        return const(w, signed(a.val, a.sort))
    aw = a.sort
    r = _lift(lambda x: signed(x, aw) & _mask(w), w, a)
    return r if r is not None else mk('sext', (a,), w)


def extract(a, hi, lo):
    w = hi - lo + 1
    if lo == 0 and w == a.sort:
        return a
    if a.op == 'const':
        return const(w, a.val >> lo)
    r = _lift(lambda x: (x >> lo) & _mask(w), w, a)
    if r is not None:
        return r
    if a.op in ('zext',) and hi < a.args[0].sort:
        return extract(a.args[0], hi, lo)
    return mk('extract', (a,), w, (hi, lo))


# ---------------------------------------------------------------- floats

def _isint(x):
    return x == x and abs(x) < 2.0 ** 52 and x == math.floor(x)


def I2F(a):
    """signed BV64 -> float64 (RNE; exact for |a| < 2^53)"""
    if a.op == 'const':
        return const('F', float(signed(a.val, a.sort)))
    return mk('i2f', (a,), 'F')


def _irange(t):
    """(lo, hi) bounds of a signed BV term built from constants, ite, add, sub"""
    if t.op == 'const':
        v = signed(t.val, t.sort)
        return v, v
    if t.op == 'ite':
        a = _irange(t.args[1])
        b = _irange(t.args[2])
        if a and b:
            return min(a[0], b[0]), max(a[1], b[1])
        return None
    if t.op in ('bvadd', 'bvsub'):
        a = _irange(t.args[0])
        b = _irange(t.args[1])
        if a and b:
            if t.op == 'bvadd':
                return a[0] + b[0], a[1] + b[1]
            return a[0] - b[1], a[1] - b[0]
        return None
    if t.op == 'bvneg':
        a = _irange(t.args[0])
        return (-a[1], -a[0]) if a else None
    return None


def _small(r):
    return r is not None and -(1 << 50) < r[0] and r[1] < (1 << 50)


def _fconst_as_int(t):
    if t.op == 'const' and t.sort == 'F':
        x = fval(t)
        if _isint(x) and not (x == 0 and math.copysign(1, x) < 0):
            return bv(int(x), 64)
    return None


def _intview(t):
    """BV64 term i with t == i2f(i) exactly, or None"""
    if t.op == 'i2f' and t.args[0].sort == 64 and _small(_irange(t.args[0])):
        return t.args[0]
    return _fconst_as_int(t)


def _froundaway(x):
    if x != x or math.isinf(x):
        return x
    r = math.floor(abs(x) + 0.5)
    # floor(|x|+0.5) can be off by one when |x|+0.5 is not representable
    if abs(x) >= 2.0 ** 52:
        return x
    t = math.floor(abs(x))
    frac = abs(x) - t
    r = t + 1 if frac >= 0.5 else t
    return math.copysign(r, x)


def _froundeven(x):
    if x != x or math.isinf(x) or abs(x) >= 2.0 ** 52:
        return x
    t = math.floor(x)
    frac = x - t
    if frac > 0.5 or (frac == 0.5 and t % 2 == 1):
        t += 1
    return math.copysign(t, x) if t == 0 else float(t)


def _ffloor(x):
    if x != x or math.isinf(x):
        return x
    r = float(math.floor(x))
    return math.copysign(r, x) if r == 0 else r


def _fdiv(x, y):
    try:
        return x / y
    except ZeroDivisionError:
        if x != x or x == 0:
            return float('nan')
        return math.copysign(float('inf'), x) * math.copysign(1.0, y)


_FFOLD = {
    'fadd': lambda x, y: x + y,
    'fsub': lambda x, y: x - y,
    'fmul': lambda x, y: x * y,
    'fdiv': _fdiv,
}


def fop(op, a, b):
    if a.op == 'const' and b.op == 'const':
        return const('F', _FFOLD[op](fval(a), fval(b)))
    if op in ('fadd', 'fsub'):
        ia, ib = _intview(a), _intview(b)
        if ia is not None and ib is not None:
            r = bvop('bvadd' if op == 'fadd' else 'bvsub', ia, ib)
            if _small(_irange(r)):
                # i2f(0) is +0; x-x in floats is +0 too under RNE, -0 only for (-0)+(-0)
                return I2F(r)
    return mk(op, (a, b), 'F')


def fneg(a):
    if a.op == 'const':
        return const('F', -fval(a))
    return mk('fneg', (a,), 'F')


def fabs(a):
    if a.op == 'const':
        return const('F', abs(fval(a)))
    return mk('fabs', (a,), 'F')


_FCMP = {
    'flt': lambda x, y: x < y,
    'fle': lambda x, y: x <= y,
    'feq': lambda x, y: x == y,
}


def fcmp(op, a, b):
    if a.op == 'const' and b.op == 'const':
        return TRUE if _FCMP[op](fval(a), fval(b)) else FALSE
    ia, ib = _intview(a), _intview(b)
    if ia is not None and ib is not None:
        if op == 'feq':
            return Eq(ia, ib)
        return bvcmp('slt' if op == 'flt' else 'sle', ia, ib)
    return mk(op, (a, b), 'B')


def fisnan(a):
    if a.op == 'const':
        x = fval(a)
        return TRUE if x != x else FALSE
    if _intview(a) is not None:
        return FALSE
    if a.op == 'ite':
        return Ite(a.args[0], fisnan(a.args[1]), fisnan(a.args[2]))
    return mk('fisnan', (a,), 'B')


def fisneg(a):
    """sign bit set and not NaN"""
    if a.op == 'const':
        x = fval(a)
        return TRUE if (x == x and math.copysign(1, x) < 0) else FALSE
    return mk('fisneg', (a,), 'B')


def fround(kind, a):
    """kind: 'rna' (math.Round), 'rne' (RoundToEven), 'rtn' (Floor), 'rtp' (Ceil), 'rtz' (Trunc)"""
    if a.op == 'const':
        x = fval(a)
        if kind == 'rna':
            return const('F', _froundaway(x))
        if kind == 'rne':
            return const('F', _froundeven(x))
        if kind == 'rtn':
            return const('F', _ffloor(x))
        if kind == 'rtp':
            return const('F', -_ffloor(-x))
        if kind == 'rtz':
            return const('F', _ffloor(x) if x >= 0 else -_ffloor(-x))
    if _intview(a) is not None:
        return a
    return mk('fround', (a,), 'F', kind)


def f2i(a, w=64):
    """float64 -> signed BV (round toward zero), as Go's int(x) on amd64 for in-range x"""
    if a.op == 'const':
        x = fval(a)
        if x == x and abs(x) < 2.0 ** 62:
            return const(w, int(x))
    iv = _intview(a)
    if iv is not None:
        return iv if w == 64 else extract(iv, w - 1, 0)
    return mk('f2i', (a,), w)


def fbits(a):
    """math.Float64bits"""
    if a.op == 'const':
        return const(64, a.val)
    return mk('fbits', (a,), 64)


def bits2f(a):
    if a.op == 'const':
        return fconst_bits(a.val)
    return mk('bits2f', (a,), 'F')


def istage(t):
    """opaque integer cut point (e.g. a MacroVector level): transparent for small-set
    extraction (indexing still sees the constants), opaque for the rewriter, so that
    comparisons with it stay atoms and it becomes a frontier term of the cube analysis"""
    if t.op in ('const', 'istage'):
        return t
    return mk('istage', (t,), t.sort)


def table(name, key):
    return mk('table', (key,), 64, name)


def stage(name, t):
    # the name is not part of the term: equal staged values are the same node
    return mk('stage', (t,), 'F', None)


# ---------------------------------------------------------------- printing

def sortstr(s):
    if s == 'B':
        return 'Bool'
    if s == 'F':
        return '(_ FloatingPoint 11 53)'
    return '(_ BitVec %d)' % s


def conststr(t):
    if t.sort == 'B':
        return 'true' if t.val else 'false'
    if t.sort == 'F':
        b = t.val
        return '(fp #b%d #b%s #b%s)' % (b >> 63, format((b >> 52) & 0x7ff, '011b'), format(b & ((1 << 52) - 1), '052b'))
    w = t.sort
    if w % 4 == 0:
        return '#x' + format(t.val, '0%dx' % (w // 4))
    return '#b' + format(t.val, '0%db' % w)


_SMTOP = {
    'and': 'and', 'or': 'or', 'not': 'not', 'ite': 'ite', 'eq': '=',
    'bvadd': 'bvadd', 'bvsub': 'bvsub', 'bvmul': 'bvmul', 'bvand': 'bvand', 'bvor': 'bvor', 'bvxor': 'bvxor',
    'bvshl': 'bvshl', 'bvlshr': 'bvlshr', 'bvashr': 'bvashr', 'bvudiv': 'bvudiv', 'bvurem': 'bvurem',
    'bvsdiv': 'bvsdiv', 'bvsrem': 'bvsrem', 'bvnot': 'bvnot', 'bvneg': 'bvneg',
    'ult': 'bvult', 'ule': 'bvule', 'slt': 'bvslt', 'sle': 'bvsle',
    'fadd': 'fp.add RNE', 'fsub': 'fp.sub RNE', 'fmul': 'fp.mul RNE', 'fdiv': 'fp.div RNE',
    'fneg': 'fp.neg', 'fabs': 'fp.abs', 'flt': 'fp.lt', 'fle': 'fp.leq', 'feq': 'fp.eq', 'fisnan': 'fp.isNaN',
}
_RM = {'rna': 'RNA', 'rne': 'RNE', 'rtn': 'RTN', 'rtp': 'RTP', 'rtz': 'RTZ'}


def name(t):
    if t.op == 'var':
        return t.val
    if t.op == 'const':
        return conststr(t)
    return 'n%d' % t.id


def body(t, nm=name):
    op = t.op
    a = t.args
    if op in _SMTOP:
        return '(%s %s)' % (_SMTOP[op], ' '.join(nm(x) for x in a))
    if op == 'zext':
        return '((_ zero_extend %d) %s)' % (t.sort - a[0].sort, nm(a[0]))
    if op == 'sext':
        return '((_ sign_extend %d) %s)' % (t.sort - a[0].sort, nm(a[0]))
    if op == 'extract':
        return '((_ extract %d %d) %s)' % (t.val[0], t.val[1], nm(a[0]))
    if op == 'i2f':
        return '((_ to_fp 11 53) RNE %s)' % nm(a[0])
    if op == 'f2i':
        return '((_ fp.to_sbv %d) RTZ %s)' % (t.sort, nm(a[0]))
    if op == 'fround':
        return '(fp.roundToIntegral %s %s)' % (_RM[t.val], nm(a[0]))
    if op == 'fisneg':
        return '(fp.isNegative %s)' % nm(a[0])
    if op == 'bits2f':
        return '((_ to_fp 11 53) %s)' % nm(a[0])
    if op in ('stage', 'name', 'istage'):
        return nm(a[0])
    raise ValueError('cannot print op ' + op)


def topo(roots):
    """all nodes reachable from roots, children first"""
    seen = set()
    out = []
    stack = [(r, False) for r in roots]
    while stack:
        t, done = stack.pop()
        if done:
            out.append(t)
            continue
        if t.id in seen:
            continue
        seen.add(t.id)
        stack.append((t, True))
        for a in t.args:
            if a.id not in seen:
                stack.append((a, False))
    return out


def smt_defs(roots, declared=None):
    """SMT-LIB text declaring the variables and defining one constant per
    inner node of the DAG below roots.  Returns (text, set of var names)."""
    lines = []
    vars_ = set() if declared is None else declared
    for t in topo(roots):
        if t.op == 'var':
            if t.val not in vars_:
                vars_.add(t.val)
                lines.append('(declare-const %s %s)' % (t.val, sortstr(t.sort)))
        elif t.op == 'const':
            pass
        elif t.op == 'fbits':
            # no SMT-LIB operator: fresh BV constrained through to_fp
            lines.append('(declare-const n%d (_ BitVec 64))' % t.id)
            lines.append('(assert (= ((_ to_fp 11 53) n%d) %s))' % (t.id, name(t.args[0])))
        elif t.op == 'table':
            raise ValueError('table term in solver query')
        else:
            # definitional equalities, not define-fun: z3 4.8.12 expands macros super-linearly (7 min for 400 KB)
            lines.append('(declare-const n%d %s)' % (t.id, sortstr(t.sort)))
            lines.append('(assert (= n%d %s))' % (t.id, body(t)))
    return '\n'.join(lines), vars_


def pp(t, depth=3):
    if t.op == 'const':
        if t.sort == 'F':
            return repr(fval(t))
        return str(t.val)
    if t.op == 'var':
        return t.val
    if depth == 0:
        return '#%d' % t.id
    extra = '' if t.val is None else '[%s]' % (t.val,)
    return '(%s%s %s)' % (t.op, extra, ' '.join(pp(a, depth - 1) for a in t.args))


# ---------------------------------------------------------------- concrete evaluation

def evaluate(roots, env, tables=None):
    """evaluate terms under env: var name -> python value (bool / int / float bits as int for 'F'...)
    floats are carried as python floats; returns list of values (floats for 'F')."""
    vals = {}
    for t in topo(roots):
        vals[t.id] = _eval1(t, vals, env, tables)
    return [vals[r.id] for r in roots]


def _eval1(t, vals, env, tables):
    op = t.op
    if op == 'const':
        return fval(t) if t.sort == 'F' else t.val
    if op == 'var':
        v = env[t.val]
        if t.sort == 'F' and isinstance(v, int):
            return struct.unpack('<d', struct.pack('<Q', v))[0]
        return v
    a = [vals[x.id] for x in t.args]
    if op == 'and':
        return all(a)
    if op == 'or':
        return any(a)
    if op == 'not':
        return not a[0]
    if op == 'ite':
        return a[1] if a[0] else a[2]
    if op == 'eq':
        return a[0] == a[1]
    if op in _BVFOLD:
        return _BVFOLD[op](a[0], a[1], t.sort)
    if op in _CMP:
        return _CMP[op](a[0], a[1], t.args[0].sort)
    if op == 'bvnot':
        return (~a[0]) & _mask(t.sort)
    if op == 'bvneg':
        return (-a[0]) & _mask(t.sort)
    if op == 'zext':
        return a[0]
    if op == 'sext':
        return signed(a[0], t.args[0].sort) & _mask(t.sort)
    if op == 'extract':
        return (a[0] >> t.val[1]) & _mask(t.sort)
    if op in _FFOLD:
        return _FFOLD[op](a[0], a[1])
    if op in _FCMP:
        return _FCMP[op](a[0], a[1])
    if op == 'fneg':
        return -a[0]
    if op == 'fabs':
        return abs(a[0])
    if op == 'fisnan':
        return a[0] != a[0]
    if op == 'fisneg':
        return a[0] == a[0] and math.copysign(1, a[0]) < 0
    if op == 'i2f':
        return float(signed(a[0], t.args[0].sort))
    if op == 'f2i':
        x = a[0]
        if x != x or abs(x) >= 2.0 ** 63:
            return 1 << 63
        return int(x) & _mask(t.sort)
    if op == 'fround':
        k = t.val
        x = a[0]
        if k == 'rna':
            return _froundaway(x)
        if k == 'rne':
            return _froundeven(x)
        if k == 'rtn':
            return _ffloor(x)
        if k == 'rtp':
            return -_ffloor(-x)
        return _ffloor(x) if x >= 0 else -_ffloor(-x)
    if op == 'fbits':
        return struct.unpack('<Q', struct.pack('<d', a[0]))[0]
    if op == 'bits2f':
        return struct.unpack('<d', struct.pack('<Q', a[0]))[0]
    if op in ('stage', 'name', 'istage'):
        return a[0]
    if op == 'table':
        return tables(t.val, signed(a[0], 64)) & _mask(64)
    raise ValueError('eval: ' + op)
